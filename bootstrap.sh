#!/bin/sh
# Builds /verif/.venv: an overlay on the repository's own /venv (numpy, pandas, PuLP, ...) plus
# z3-solver and crosshair-tool from the offline wheelhouse. Idempotent; offline.
set -e
HERE="$(cd "$(dirname "$0")" && pwd)"
V="$HERE/.venv"
if [ -x "$V/bin/python" ] && "$V/bin/python" -c "import z3, crosshair, numpy, pulp" 2>/dev/null; then
  exit 0
fi
rm -rf "$V"
/venv/bin/python -m venv "$V"
SP="$V/lib/python3.12/site-packages"
printf "import site; site.addsitedir('/venv/lib/python3.12/site-packages')\n" > "$SP/_overlay.pth"
PIP_NO_INDEX=1 "$V/bin/pip" install -q --no-index --find-links /opt/veriftools/wheels z3-solver crosshair-tool >/dev/null
"$V/bin/python" -c "import z3, crosshair, numpy, pulp; print('verif venv ok: z3', z3.get_version_string())"
