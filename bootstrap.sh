#!/bin/sh
# Builds /verif/.venv: an overlay on the repository's own /venv (numpy, pandas, PuLP, ...) plus
# z3-solver and crosshair-tool from the offline wheelhouse. Idempotent; offline; safe to call from several checks at once.
set -e
HERE="$(cd "$(dirname "$0")" && pwd)"
V="$HERE/.venv"
ok() { [ -x "$V/bin/python" ] && (cd / && "$V/bin/python" -c "import z3, crosshair, numpy, pulp" 2>/dev/null); }
if ok; then
  exit 0
fi
# one builder at a time; the others wait and then find the environment ready
if command -v flock >/dev/null 2>&1; then
  exec 9>"$HERE/.bootstrap.lock"
  flock 9
  if ok; then
    exit 0
  fi
fi
if [ ! -x "$V/bin/python" ]; then
  /venv/bin/python -m venv "$V"
fi
SP="$V/lib/python3.12/site-packages"
printf "import site; site.addsitedir('/venv/lib/python3.12/site-packages')\n" > "$SP/_overlay.pth"
PIP_NO_INDEX=1 "$V/bin/pip" install -q --no-index --find-links /opt/veriftools/wheels z3-solver crosshair-tool >/dev/null
(cd / && "$V/bin/python" -c "import z3, crosshair, numpy, pulp; print('verif venv ok: z3', z3.get_version_string())")
