"""Symbolic optimiser inputs + execution of the repository's real model builder against the PuLP stand-in.

build(cfg) -> Model with
  cons    : dict name -> z3 Bool     (every constraint the real code added, in order)
  bounds  : list of z3 Bool          (variable bounds the real code declared)
  sup     : list of z3 Bool          (supplies >= 0 and the relations between supply symbols)
  V       : the `variables` dict of the real code (entries are stand-in expressions or 0)
  S       : dict of supply symbols (z3 terms / lists)
"""
import types
from fractions import Fraction

import z3

from . import standin as SI
from .standin import E, q

NS = types.SimpleNamespace

FOODS = ["SEAWEED", "OUTDOOR_GROWING", "STORED_FOOD", "MEAT", "METHANE_SCP", "CELLULOSIC_SUGAR"]


def default_cfg(**kw):
    cfg = dict(N=5, opt="to_humans", store=True, rotation=False, retail=6.08, pop=5e7, kcals_daily=2100.0,
               flags=dict(SEAWEED=True, OUTDOOR_GROWING=True, STORED_FOOD=True, MEAT=True, METHANE_SCP=True, CELLULOSIC_SUGAR=True),
               caps=dict(SEAWEED=(7, 10, 10), METHANE_SCP=(50, 43, 100), CELLULOSIC_SUGAR=(40, 10, 100)),
               growth=None, seaweed_kcals=0.2665, harvest_duration=8, rotation_delay=2, symbolic_area=True, tag="")
    cfg.update(kw)
    return cfg


class Model:
    pass


def _supply(prefix, N, tag):
    return [z3.Real("%s%s_%d" % (tag, prefix, m)) for m in range(N)]


def build(cfg, om=None):
    if om is None:
        import src.optimizer.optimizer as om
    N = cfg["N"]
    tag = cfg.get("tag", "")
    SI.reset(cfg.get("tape", ()))
    undo = SI.install(om)
    try:
        M = Model()
        M.cfg = cfg
        pop = cfg["pop"]
        kcm = cfg["kcals_daily"] * 30
        S = {}
        S["sf0"] = z3.Real(tag + "stored_food_initial")
        for k in ("slaughter", "crops", "scp", "cs", "milk", "gh", "fish", "feed", "biofuel", "max_feed", "max_biofuel"):
            S[k] = _supply(k, N, tag)
        S["area"] = _supply("built_area", N, tag) if cfg["symbolic_area"] else [0.003 + 1.9 * m for m in range(N)]
        growth = cfg["growth"] or [140.0 + 3.0 * (m % 5) for m in range(N)]
        run = []
        acc = E(0)
        for m in range(N):
            acc = acc + E(S["slaughter"][m])
            run.append(acc)
        inputs = dict(INCLUDE_FAT=False, INCLUDE_PROTEIN=False, OG_USE_BETTER_ROTATION=cfg["rotation"], COUNTRY_CODE="XXX")
        for food, (h, f, b) in cfg["caps"].items():
            inputs["MAX_%s_AS_PERCENT_KCALS_HUMANS" % food] = h
            inputs["MAX_%s_AS_PERCENT_KCALS_FEED" % food] = f
            inputs["MAX_%s_AS_PERCENT_KCALS_BIOFUEL" % food] = b
        consts = dict(NMONTHS=N, STORE_FOOD_BETWEEN_YEARS=cfg["store"], POP=pop, KCALS_MONTHLY=kcm, BILLION_KCALS_NEEDED=pop * kcm / 1e9,
                      SEAWEED_KCALS=cfg["seaweed_kcals"], INITIAL_SEAWEED=0.01, MAXIMUM_DENSITY=3600, MINIMUM_DENSITY=1200, INITIAL_BUILT_SEAWEED_AREA=0.003, HARVEST_LOSS=20,
                      **waste_consts(cfg),
                      INITIAL_HARVEST_DURATION_IN_MONTHS=cfg["harvest_duration"], DELAY=dict(ROTATION_CHANGE_IN_MONTHS=cfg["rotation_delay"]),
                      OG_FRACTION_FAT=0.01, OG_FRACTION_PROTEIN=0.02, OG_ROTATION_FRACTION_FAT=0.012, OG_ROTATION_FRACTION_PROTEIN=0.021, inputs=inputs,
                      stored_food=NS(initial_available=NS(kcals=E(S["sf0"]))), meat_summed_consumption=acc)
        for f in FOODS:
            consts["ADD_" + f] = bool(cfg["flags"].get(f, False))
        lst = lambda k: [E(x) if z3.is_expr(x) else x for x in S[k]]
        tc = dict(built_area=lst("area"), growth_rates_monthly=growth, outdoor_crops=NS(production=NS(kcals=lst("crops"))),
                  methane_scp=NS(kcals=lst("scp")), cellulosic_sugar=NS(kcals=lst("cs")), milk_kcals=lst("milk"), greenhouse_crops=[NS(kcals=g) for g in lst("gh")],
                  fish=NS(to_humans=NS(kcals=lst("fish"))), feed=NS(kcals=lst("feed")), biofuel=NS(kcals=lst("biofuel")),
                  max_feed_that_could_be_used=NS(kcals=lst("max_feed")), max_biofuel_that_could_be_used=NS(kcals=lst("max_biofuel")),
                  max_consumed_culled_kcals_each_month=run, each_month_meat_slaughtered=[NS(kcals=E(s)) for s in S["slaughter"]])
        pins = {}
        if cfg["opt"] == "to_animals":
            # pinned minimum human consumption per food and month (billion kcals), symbolic
            for food in ("outdoor_crops", "stored_food", "meat", "methane_scp", "cellulosic_sugar", "seaweed"):
                pins[food] = _supply("pin_" + food, N, tag)
            S["pins"] = pins

            class Pin:
                def __init__(self, vals):
                    self.vals = vals

                def in_units_bil_kcals_thou_tons_thou_tons_per_month(self):
                    return [NS(kcals=E(v)) for v in self.vals]
            tc["min_human_food_consumption"] = {k: Pin(v) for k, v in pins.items()}
        opt = om.Optimizer(consts, tc)
        model = SI.Problem("x", None)
        variables = opt.initial_variables.copy()
        model, variables, mc = opt.add_variables_and_constraints_to_model(model, variables, consts, cfg["opt"])
        M.opt, M.model, M.V, M.consts, M.tc, M.S, M.growth = opt, model, variables, consts, tc, S, growth
        M.cons = dict(model.cons)
        first_vars = list(SI.REG.vars)
        if cfg.get("stages"):
            # the real multi-stage driver: first solve, floor on the optimum, "best to humans" solve, resilient-food floor, smoothing solve
            M.first_value = opt.run_optimizations_on_constraints(model, variables, consts, cfg["opt"])
            M.snapshots = list(SI.REG.snapshots)
            M.values = dict(SI.REG.values)
            M.objvals = list(SI.REG.objvals)
            M.all_vars = list(SI.REG.vars)
            SI.REG.vars = first_vars
        M.vars = list(SI.REG.vars)
        M.bounds = [v.z >= q(v.lowBound) for v in M.vars if v.lowBound is not None] + [v.z <= q(v.upBound) for v in M.vars if v.upBound is not None]
        M.unbounded_below = [v.name for v in M.vars if v.lowBound is None]
        sup = [S["sf0"] >= 0]
        for k in ("slaughter", "crops", "scp", "cs", "milk", "gh", "fish", "feed", "biofuel", "max_feed", "max_biofuel"):
            sup += [x >= 0 for x in S[k]]
        if cfg["symbolic_area"]:
            sup += [x >= q(0.003) for x in S["area"]]
            sup += [S["area"][m] >= S["area"][m - 1] for m in range(1, N)]
        for v in pins.values():
            sup += [x >= 0 for x in v]
        # decisions the builder took on supply values (strict comparisons in `if`): the constraint system is the one of this branch only
        M.branch = list(SI.BRANCH["log"])
        sup += [c if d else z3.Not(c) for c, d in M.branch]
        M.sup = sup
        M.objective = model.objective.e.z if model.objective is not None else None
        M.run = [r.z for r in run]
        return M
    finally:
        undo()


def all_supply_symbols(M):
    out = [M.S["sf0"]]
    for k, v in M.S.items():
        if k == "sf0":
            continue
        if k == "pins":
            for vv in v.values():
                out += list(vv)
        else:
            out += [x for x in v if z3.is_expr(x)]
    return out


def zz(x):
    """stand-in expression / number -> z3 term"""
    return E.lift(x).z


WASTE_KEYS = dict(seaweed="SEAWEED_WASTE_RETAIL", stored_food="STORED_FOOD_WASTE_RETAIL", meat="MEAT_WASTE_RETAIL", crops_food="CROP_WASTE_RETAIL", methane_scp="SCP_RETAIL_WASTE",
                  cellulosic_sugar="CELL_SUGAR_RETAIL_WASTE")


def waste(cfg, food=None):
    """retail waste percent of one food: cfg["retail"] for every food unless cfg["retail_by"] names the food (a mix-up of the per-food settings is then visible)"""
    by = cfg.get("retail_by") or {}
    if food is not None:
        for pre in WASTE_KEYS:
            if food.startswith(pre) and pre in by:
                return by[pre]
    return cfg["retail"]


def waste_consts(cfg):
    return {key: waste(cfg, pre) for pre, key in WASTE_KEYS.items()}


def W(cfg, food=None):
    """gross-up factor for retail waste, written as the exact rational of 1/(1-w/100) computed like the code does (x * 1 / (1 - w/100))"""
    return q(1) / q(1 - waste(cfg, food) / 100)


def build_all(cfg, limit=64):
    """every branch of a builder that branches on supply values: yields Models (one per decision tape); raises OverflowError beyond `limit` tapes"""
    todo = [[]]
    done = 0
    while todo:
        tape = todo.pop()
        M = build(dict(cfg, tape=tape))
        done += 1
        if done > limit:
            raise OverflowError("more than %d branches on supply values in the builder" % limit)
        for i in range(len(tape), len(M.branch)):
            todo.append([d for _, d in M.branch[:i]] + [not M.branch[i][1]])
        yield M
