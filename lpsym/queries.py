"""Entailment queries over the LP formulas (all QF_LRA) and the replay of LP counterexamples on the real optimiser."""
import time
import types
from fractions import Fraction

import z3

from .model import all_supply_symbols, zz, q, waste, waste_consts

EPS = z3.RatVal(1, 10 ** 9)


def scale_term(M, extra=()):
    """1 + sum of every non-negative variable and supply: the epsilon-relaxation is relative to the size of the instance"""
    terms = [v.z for v in M.vars] + all_supply_symbols(M) + list(extra)
    return z3.Sum(terms) + 1


def relax(c, Mt):
    """mechanical epsilon-relaxation of an atom / conjunction (DESIGN 3.2)"""
    if z3.is_and(c):
        return z3.And([relax(x, Mt) for x in c.children()])
    if z3.is_true(c):
        return c
    k = c.decl().kind()
    l, r = c.arg(0), c.arg(1)
    if k == z3.Z3_OP_LE:
        return l <= r + EPS * Mt
    if k == z3.Z3_OP_GE:
        return l >= r - EPS * Mt
    if k == z3.Z3_OP_EQ:
        return z3.And(l <= r + EPS * Mt, l >= r - EPS * Mt)
    if k == z3.Z3_OP_LT:
        return l < r + EPS * Mt
    if k == z3.Z3_OP_GT:
        return l > r - EPS * Mt
    raise ValueError("cannot relax %s" % c)


class Entail:
    """incremental solver holding the hypotheses; check(goal) decides hypotheses |= goal"""

    def __init__(self, hyps, timeout_ms=120000, seed=0):
        self.s = z3.SolverFor("QF_LRA")
        self.s.set("timeout", timeout_ms)
        # the verdict cannot depend on the seed; solving time can (a 14-month query ran > 20 min with random_seed=1, 70 s with 0):
        # the solver seed is fixed, VERIF_SEED only selects instances / concrete validation values
        self.s.set("random_seed", 0)
        self.s.add(hyps)
        self.queries = 0
        self.solver_s = 0.0
        self.counts = dict(unsat=0, sat=0, unknown=0)

    def check(self, goal, extra=()):
        self.s.push()
        self.s.add(z3.Not(goal))
        for e in extra:
            self.s.add(e)
        t = time.time()
        r = self.s.check()
        self.solver_s += time.time() - t
        self.queries += 1
        m = self.s.model() if r == z3.sat else None
        self.s.pop()
        self.counts[str(r)] += 1
        return str(r), m

    def satisfiable(self):
        t = time.time()
        r = self.s.check()
        self.solver_s += time.time() - t
        self.queries += 1
        self.counts[str(r)] += 1
        return str(r)


def model_values(M, m):
    """concrete supplies of a solver model as floats"""
    def f(x):
        if not z3.is_expr(x):
            return float(x)
        v = m.eval(x, model_completion=True)
        return float(Fraction(v.numerator_as_long(), v.denominator_as_long()))
    out = {}
    for k, v in M.S.items():
        if k == "pins":
            out[k] = {kk: [f(x) for x in vv] for kk, vv in v.items()}
        elif isinstance(v, list):
            out[k] = [f(x) for x in v]
        else:
            out[k] = f(v)
    return out


def concrete_inputs(cfg, vals, growth):
    """consts_for_optimizer / time_consts for the REAL optimiser (real PuLP + CBC) from concrete supplies; same layout as lpsym.model.build"""
    NS = types.SimpleNamespace
    N = cfg["N"]
    pop = cfg["pop"]
    kcm = cfg["kcals_daily"] * 30
    inputs = dict(INCLUDE_FAT=False, INCLUDE_PROTEIN=False, OG_USE_BETTER_ROTATION=cfg["rotation"], COUNTRY_CODE="XXX")
    for food, (h, f, b) in cfg["caps"].items():
        inputs["MAX_%s_AS_PERCENT_KCALS_HUMANS" % food] = h
        inputs["MAX_%s_AS_PERCENT_KCALS_FEED" % food] = f
        inputs["MAX_%s_AS_PERCENT_KCALS_BIOFUEL" % food] = b
    run = []
    acc = 0.0
    for m in range(N):
        acc += vals["slaughter"][m]
        run.append(acc)
    consts = dict(NMONTHS=N, STORE_FOOD_BETWEEN_YEARS=cfg["store"], POP=pop, KCALS_MONTHLY=kcm, BILLION_KCALS_NEEDED=pop * kcm / 1e9,
                  SEAWEED_KCALS=cfg["seaweed_kcals"], INITIAL_SEAWEED=0.01, MAXIMUM_DENSITY=3600, MINIMUM_DENSITY=1200, INITIAL_BUILT_SEAWEED_AREA=0.003, HARVEST_LOSS=20,
                  **waste_consts(cfg),
                  INITIAL_HARVEST_DURATION_IN_MONTHS=cfg["harvest_duration"], DELAY=dict(ROTATION_CHANGE_IN_MONTHS=cfg["rotation_delay"]),
                  OG_FRACTION_FAT=0.01, OG_FRACTION_PROTEIN=0.02, OG_ROTATION_FRACTION_FAT=0.012, OG_ROTATION_FRACTION_PROTEIN=0.021, inputs=inputs,
                  stored_food=NS(initial_available=NS(kcals=vals["sf0"])), meat_summed_consumption=acc)
    for f in ("SEAWEED", "OUTDOOR_GROWING", "STORED_FOOD", "MEAT", "METHANE_SCP", "CELLULOSIC_SUGAR"):
        consts["ADD_" + f] = bool(cfg["flags"].get(f, False))
    tc = dict(built_area=list(vals["area"]), growth_rates_monthly=list(growth), outdoor_crops=NS(production=NS(kcals=list(vals["crops"]))),
              methane_scp=NS(kcals=list(vals["scp"])), cellulosic_sugar=NS(kcals=list(vals["cs"])), milk_kcals=list(vals["milk"]),
              greenhouse_crops=[NS(kcals=g) for g in vals["gh"]], fish=NS(to_humans=NS(kcals=list(vals["fish"]))), feed=NS(kcals=list(vals["feed"])),
              biofuel=NS(kcals=list(vals["biofuel"])), max_feed_that_could_be_used=NS(kcals=list(vals["max_feed"])), max_biofuel_that_could_be_used=NS(kcals=list(vals["max_biofuel"])),
              max_consumed_culled_kcals_each_month=run, each_month_meat_slaughtered=[NS(kcals=s) for s in vals["slaughter"]])
    pinobj = None
    if cfg["opt"] == "to_animals":
        class Pin:
            def __init__(self, v):
                self.v = v

            def in_units_bil_kcals_thou_tons_thou_tons_per_month(self):
                return [NS(kcals=x) for x in self.v]
        pinobj = {k: Pin(v) for k, v in vals["pins"].items()}
    return consts, tc, pinobj


def run_real(cfg, vals, growth):
    """the real Optimizer with real PuLP + CBC, all stages; returns (status, percent_fed, values dict name->float) or raises AssertionError"""
    import src.optimizer.optimizer as om
    import os
    import tempfile
    import contextlib
    import io
    consts, tc, pins = concrete_inputs(cfg, vals, growth)
    o = om.Optimizer(consts, tc)
    cwd = os.getcwd()
    tmp = tempfile.mkdtemp(prefix="vp_replay_")     # a failing solve makes the code write model.json into the current directory
    os.chdir(tmp)
    try:
        with contextlib.redirect_stdout(io.StringIO()):
            if cfg["opt"] == "to_humans":
                model, variables, mc, pf = o.optimize_to_humans(consts, tc)
            else:
                model, variables, mc, pf = o.optimize_feed_to_animals(consts, tc, pins)
    finally:
        os.chdir(cwd)
        import shutil
        shutil.rmtree(tmp, ignore_errors=True)
    out = {}
    for k, v in variables.items():
        if isinstance(v, list):
            out[k] = [(x.varValue if hasattr(x, "varValue") else float(x)) for x in v]
        else:
            out[k] = v.varValue if hasattr(v, "varValue") else v
    return pf, out


def float_audit(cfg, vals, growth, X, tol_rel=1e-6):
    """audit of a concrete allocation X (dict as returned by run_real) against concrete supplies, floats; returns list of violated clause names"""
    N = cfg["N"]
    F = cfg["flags"]
    wf = lambda food: 1.0 / (1 - waste(cfg, food) / 100)
    K = cfg["seaweed_kcals"]
    g = lambda key, m: float(X[key][m] or 0.0)
    scale = 1 + sum(abs(x) for v in vals.values() if isinstance(v, list) for x in v) + abs(vals["sf0"])
    tol = tol_rel * scale + 1e-6
    bad = []
    human = cfg["opt"] == "to_humans"
    if F.get("STORED_FOOD"):
        c = 0.0
        for m in range(N):
            c += g("stored_food_to_humans", m) * wf("stored_food") + g("stored_food_feed", m) + g("stored_food_biofuel", m)
            if c > vals["sf0"] + tol:
                bad.append("stored food: cumulative use <= initial stock [month %d]" % m)
        if human and cfg["store"] and abs(c - vals["sf0"]) > tol:
            bad.append("stored food: fully used by the last month")
    if F.get("OUTDOOR_GROWING"):
        c = h = 0.0
        for m in range(N):
            c += g("crops_food_to_humans", m) * wf("crops_food") + g("crops_food_feed", m) + g("crops_food_biofuel", m)
            h += vals["crops"][m]
            if c > h + tol:
                bad.append("crops: cumulative use <= harvested so far [month %d]" % m)
        if human and abs(c - h) > tol:
            bad.append("crops: fully used by the last month")
    if F.get("MEAT"):
        c = s = 0.0
        for m in range(N):
            c += g("meat_eaten", m) * wf("meat")
            s += vals["slaughter"][m]
            if cfg["store"] and c > s + tol:
                bad.append("meat: cumulative use <= slaughtered so far [month %d]" % m)
            if not cfg["store"] and g("meat_eaten", m) * wf("meat") > vals["slaughter"][m] + tol:
                bad.append("meat: monthly use <= slaughtered that month (no storage) [month %d]" % m)
    for flag, pre, sk, nm in (("METHANE_SCP", "methane_scp", "scp", "single-cell protein"), ("CELLULOSIC_SUGAR", "cellulosic_sugar", "cs", "cellulosic sugar")):
        if F.get(flag):
            for m in range(N):
                if g(pre + "_to_humans", m) * wf(pre) + g(pre + "_feed", m) + g(pre + "_biofuel", m) > vals[sk][m] + tol:
                    bad.append("%s: monthly use <= that month's output [month %d]" % (nm, m))
    if F.get("SEAWEED"):
        for m in range(N):
            wet, area = g("seaweed_wet_on_farm", m), g("used_area", m)
            if wet < 0.01 - tol or wet > 3600 * vals["area"][m] + tol:
                bad.append("seaweed: biomass within [starting level, density limit] [month %d]" % m)
            if area < 0.003 - tol or area > vals["area"][m] + tol:
                bad.append("seaweed: used area within [initial, built] [month %d]" % m)
            if m > 0:
                led = (g("seaweed_wet_on_farm", m - 1) * (1 + growth[m] / 100.0) - g("seaweed_to_humans", m) * wf("seaweed") - g("seaweed_feed", m) - g("seaweed_biofuel", m)
                       - (area - g("used_area", m - 1)) * 1200 * 0.2)
                if abs(wet - led) > tol:
                    bad.append("seaweed: growth-and-harvest ledger [month %d]" % m)
    for k, v in X.items():
        if isinstance(v, list):
            for m, x in enumerate(v):
                if x is not None and isinstance(x, float) and x < -tol:
                    bad.append("negative quantity %s[%d] = %r" % (k, m, x))
    fs = lambda m: g("stored_food_feed", m) + g("crops_food_feed", m) + g("seaweed_feed", m) * K + g("cellulosic_sugar_feed", m) + g("methane_scp_feed", m)
    bs = lambda m: g("stored_food_biofuel", m) + g("crops_food_biofuel", m) + g("seaweed_biofuel", m) * K + g("cellulosic_sugar_biofuel", m) + g("methane_scp_biofuel", m)
    for m in range(N):
        if human:
            if abs(fs(m) - vals["feed"][m]) > tol:
                bad.append("feed total == amount charged [month %d]" % m)
            if abs(bs(m) - vals["biofuel"][m]) > tol:
                bad.append("biofuel total == amount charged [month %d]" % m)
        else:
            if fs(m) > vals["max_feed"][m] + tol:
                bad.append("feed total <= demand ceiling [month %d]" % m)
            if bs(m) > vals["max_biofuel"][m] + tol:
                bad.append("biofuel total <= demand ceiling [month %d]" % m)
            if m and fs(m) > fs(m - 1) + tol:
                bad.append("feed use never rises from one month to the next [month %d]" % m)
    return bad


def spec_violations(cfg, vals, growth, X, tol_rel=1e-6):
    """which constraints of the independent specification LP does a concrete allocation X (as returned by run_real) violate on concrete supplies?
    exact evaluation of the spec formulas after substituting supplies and allocation; tolerance relative to the size of the instance"""
    import z3
    from . import model as LM
    from . import spec as SP
    M = LM.build(dict(cfg, growth=list(growth)))
    A, spec, zobj, sub0 = SP.spec_lp(M, over="code")
    sub = []
    size = 1.0
    for k, v in M.S.items():
        if k == "pins":
            for kk, vv in v.items():
                for i, x in enumerate(vv):
                    sub.append((x, q(vals["pins"][kk][i])))
        elif isinstance(v, list):
            for i, x in enumerate(v):
                if z3.is_expr(x):
                    sub.append((x, q(vals[k][i])))
                    size += abs(vals[k][i])
        else:
            sub.append((v, q(vals[k])))
            size += abs(vals[k])
    for key, terms in M.V.items():
        if isinstance(terms, list):
            for m, t in enumerate(terms):
                z = zz(t)
                if z3.is_const(z) and z.decl().kind() == z3.Z3_OP_UNINTERPRETED:
                    sub.append((z, q(float(X[key][m] or 0.0))))
                    size += abs(float(X[key][m] or 0.0))
        else:
            z = zz(terms)
            if z3.is_const(z) and z.decl().kind() == z3.Z3_OP_UNINTERPRETED:
                sub.append((z, q(float(X[key] or 0.0))))
    tol = q(tol_rel * size)
    bad = []
    for name, f in spec:
        g = z3.simplify(z3.substitute(relax(f, tol * 10 ** 9), *sub))
        if z3.is_false(g):
            bad.append(name)
        elif not z3.is_true(g):
            bad.append("UNDECIDED " + name)
    return bad


def hard_check(solver, goal, timeout_s):
    """decides solver /\\ goal with the z3 command-line binary under a HARD wall-clock limit (the in-process `timeout` is not honoured inside a long exact-simplex
    pivot: a single query on an LP with 17-digit coefficients was seen running past its 600 s limit).  returns ("sat" | "unsat" | "unknown", model value text or None)"""
    import os
    import shutil
    import subprocess
    import tempfile
    import z3
    s = z3.Solver()
    s.add(solver.assertions())
    s.add(goal)
    text = "(set-logic QF_LRA)\n" + "\n".join(l for l in s.to_smt2().splitlines() if not l.startswith("(set-info") and not l.startswith("(set-logic"))
    exe = shutil.which("z3-new") or shutil.which("z3")
    fd, path = tempfile.mkstemp(prefix="vp_q_", suffix=".smt2")
    try:
        with os.fdopen(fd, "w") as f:
            f.write(text)
        try:
            p = subprocess.run([exe, "-smt2", path], stdout=subprocess.PIPE, stderr=subprocess.STDOUT, text=True, timeout=timeout_s)
        except subprocess.TimeoutExpired:
            return "unknown"
        out = p.stdout.strip().splitlines()
        if any("(error" in l for l in out):
            return "unknown"
        return out[0].strip() if out and out[0].strip() in ("sat", "unsat", "unknown") else "unknown"
    finally:
        try:
            os.unlink(path)
        except OSError:
            pass
