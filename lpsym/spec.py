"""Physical audit clauses and the independent specification LP, written from the supplies only (C01, C02).

All functions take a lpsym.model.Model `M` and return lists of (name, z3 Bool).  Nothing here looks at M.cons."""
import z3

from .model import zz, W, q


def _v(M, key, m):
    return zz(M.V[key][m])


def gross(M, key, m):
    """what people draw from the supply per unit eaten: eaten / (1 - retail waste)"""
    return _v(M, key, m) * W(M.cfg, key)


def used_stored(M, m):
    return gross(M, "stored_food_to_humans", m) + _v(M, "stored_food_feed", m) + _v(M, "stored_food_biofuel", m)


def used_crops(M, m):
    return gross(M, "crops_food_to_humans", m) + _v(M, "crops_food_feed", m) + _v(M, "crops_food_biofuel", m)


def feed_sum(M, m):
    K = q(M.cfg["seaweed_kcals"])
    return _v(M, "stored_food_feed", m) + _v(M, "crops_food_feed", m) + _v(M, "seaweed_feed", m) * K + _v(M, "cellulosic_sugar_feed", m) + _v(M, "methane_scp_feed", m)


def biofuel_sum(M, m):
    K = q(M.cfg["seaweed_kcals"])
    return _v(M, "stored_food_biofuel", m) + _v(M, "crops_food_biofuel", m) + _v(M, "seaweed_biofuel", m) * K + _v(M, "cellulosic_sugar_biofuel", m) + _v(M, "methane_scp_biofuel", m)


def eaten_percent(M, m):
    """percent of the population's monthly need that people eat in month m (net of retail waste)"""
    K = q(M.cfg["seaweed_kcals"])
    S = M.S
    eaten = (_v(M, "stored_food_to_humans", m) + _v(M, "crops_food_to_humans", m) + _v(M, "seaweed_to_humans", m) * K + zz_s(S["milk"][m]) + _v(M, "meat_eaten", m)
             + _v(M, "cellulosic_sugar_to_humans", m) + _v(M, "methane_scp_to_humans", m) + zz_s(S["gh"][m]) + zz_s(S["fish"][m]))
    need = q(M.cfg["pop"]) * q(M.cfg["kcals_daily"]) * 30 / q(1e9)
    return eaten / need * 100


def zz_s(x):
    return x if z3.is_expr(x) else q(x)


def audit(M):
    """the clauses of C01 for this round type; each is (name, formula)."""
    cfg, S, N = M.cfg, M.S, M.cfg["N"]
    F = cfg["flags"]
    human_round = cfg["opt"] == "to_humans"
    out = []
    cum = lambda f, m: z3.Sum([f(M, j) for j in range(m + 1)]) if m >= 0 else q(0)
    if F.get("STORED_FOOD"):
        for m in range(N):
            out.append(("stored food: cumulative use <= initial stock [month %d]" % m, cum(used_stored, m) <= S["sf0"]))
        if human_round and cfg["store"]:
            out.append(("stored food: fully used by the last month", cum(used_stored, N - 1) == S["sf0"]))
        if not cfg["store"]:
            for m in range(13, N):
                out.append(("stored food: none used after the first year when nothing is stored between years [month %d]" % m, used_stored(M, m) == 0))
    if F.get("OUTDOOR_GROWING"):
        for m in range(N):
            out.append(("crops: cumulative use <= harvested so far [month %d]" % m, cum(used_crops, m) <= z3.Sum([zz_s(S["crops"][j]) for j in range(m + 1)])))
        if human_round:
            out.append(("crops: fully used by the last month", cum(used_crops, N - 1) == z3.Sum([zz_s(x) for x in S["crops"]])))
    if F.get("MEAT"):
        for m in range(N):
            if cfg["store"]:
                out.append(("meat: cumulative use <= slaughtered so far [month %d]" % m, z3.Sum([gross(M, "meat_eaten", j) for j in range(m + 1)]) <= z3.Sum([S["slaughter"][j] for j in range(m + 1)])))
            else:
                out.append(("meat: monthly use <= slaughtered that month (no storage) [month %d]" % m, gross(M, "meat_eaten", m) <= S["slaughter"][m]))
    if F.get("METHANE_SCP"):
        for m in range(N):
            out.append(("single-cell protein: monthly use <= that month's output [month %d]" % m,
                        gross(M, "methane_scp_to_humans", m) + _v(M, "methane_scp_feed", m) + _v(M, "methane_scp_biofuel", m) <= S["scp"][m]))
    if F.get("CELLULOSIC_SUGAR"):
        for m in range(N):
            out.append(("cellulosic sugar: monthly use <= that month's output [month %d]" % m,
                        gross(M, "cellulosic_sugar_to_humans", m) + _v(M, "cellulosic_sugar_feed", m) + _v(M, "cellulosic_sugar_biofuel", m) <= S["cs"][m]))
    if F.get("SEAWEED"):
        c = M.consts
        for m in range(N):
            wet, area = _v(M, "seaweed_wet_on_farm", m), _v(M, "used_area", m)
            built = zz_s(S["area"][m])
            out.append(("seaweed: biomass >= starting level [month %d]" % m, wet >= q(c["INITIAL_SEAWEED"])))
            out.append(("seaweed: biomass <= density limit of the built farm area [month %d]" % m, wet <= q(c["MAXIMUM_DENSITY"]) * built))
            out.append(("seaweed: used area within [initial, built] [month %d]" % m, z3.And(area >= q(c["INITIAL_BUILT_SEAWEED_AREA"]), area <= built)))
            if m == 0:
                out.append(("seaweed: starts at the initial biomass and area, nothing harvested in month 0",
                            z3.And(wet == q(c["INITIAL_SEAWEED"]), area == q(c["INITIAL_BUILT_SEAWEED_AREA"]), _v(M, "seaweed_to_humans", 0) == 0, _v(M, "seaweed_feed", 0) == 0, _v(M, "seaweed_biofuel", 0) == 0)))
            else:
                g = q(1) + q(M.growth[m]) / 100
                led = (_v(M, "seaweed_wet_on_farm", m - 1) * g - gross(M, "seaweed_to_humans", m) - _v(M, "seaweed_feed", m) - _v(M, "seaweed_biofuel", m)
                       - (area - _v(M, "used_area", m - 1)) * q(c["MINIMUM_DENSITY"]) * (q(c["HARVEST_LOSS"]) / 100))
                out.append(("seaweed: growth-and-harvest ledger [month %d]" % m, wet == led))
    for m in range(N):
        if human_round:
            out.append(("feed total == amount charged [month %d]" % m, feed_sum(M, m) == zz_s(S["feed"][m])))
            out.append(("biofuel total == amount charged [month %d]" % m, biofuel_sum(M, m) == zz_s(S["biofuel"][m])))
        else:
            out.append(("feed total <= demand ceiling [month %d]" % m, feed_sum(M, m) <= zz_s(S["max_feed"][m])))
            out.append(("biofuel total <= demand ceiling [month %d]" % m, biofuel_sum(M, m) <= zz_s(S["max_biofuel"][m])))
            if m > 0:
                out.append(("feed use never rises from one month to the next [month %d]" % m, feed_sum(M, m) <= feed_sum(M, m - 1)))
    return out


def degenerate(M):
    """does this configuration have any feed/biofuel variable at all? (the code skips the sum constraints when every term is the constant 0)"""
    F = M.cfg["flags"]
    return not any(F.get(k) for k in ("STORED_FOOD", "OUTDOOR_GROWING", "SEAWEED", "CELLULOSIC_SUGAR", "METHANE_SCP"))


# ------------------------------------------------------------------------------------------------------------------
# Independent specification LP (C02): decision variables are allocations only; every stock is an explicit expression.
DECISIONS = ["stored_food_to_humans", "stored_food_feed", "stored_food_biofuel", "crops_food_to_humans", "crops_food_feed", "crops_food_biofuel", "meat_eaten",
             "methane_scp_to_humans", "methane_scp_feed", "methane_scp_biofuel", "cellulosic_sugar_to_humans", "cellulosic_sugar_feed", "cellulosic_sugar_biofuel",
             "seaweed_to_humans", "seaweed_feed", "seaweed_biofuel", "seaweed_wet_on_farm", "used_area"]
NEEDS = dict(stored_food="STORED_FOOD", crops_food="OUTDOOR_GROWING", meat="MEAT", methane_scp="METHANE_SCP", cellulosic_sugar="CELLULOSIC_SUGAR", seaweed="SEAWEED", used_area="SEAWEED")


def _enabled(cfg, key):
    for pre, flag in NEEDS.items():
        if key.startswith(pre):
            return bool(cfg["flags"].get(flag))
    return True


def spec_lp(M, over="fresh"):
    """over="fresh": allocations are fresh symbols (spec => code direction); over="code": allocations are the code's own decision variables (code => spec).
    returns (A, spec constraints [(name, formula)], objective term, substitution list [(code variable term, expression over A and supplies)])
    written from the physical statement: allocations a, supplies s; feasible iff nothing is drawn that does not exist, the documented caps hold and
    the round's feed/biofuel rule holds."""
    cfg, S, N = M.cfg, M.S, M.cfg["N"]
    human = cfg["opt"] == "to_humans"
    wf = lambda food: W(cfg, food)
    K = q(cfg["seaweed_kcals"])
    need = q(cfg["pop"]) * q(cfg["kcals_daily"]) * 30 / q(1e9)
    c = M.consts
    A = {}
    for key in DECISIONS:
        if _enabled(cfg, key):
            A[key] = [z3.Real("a_%s_%d" % (key, m)) for m in range(N)] if over == "fresh" else [zz(M.V[key][m]) for m in range(N)]
        else:
            A[key] = [q(0)] * N
    zobj = z3.Real("a_objective") if over == "fresh" else M.V["objective_function"].z
    a = lambda k, m: A[k][m]
    spec = []
    for key in DECISIONS:
        if _enabled(cfg, key):
            spec += [("allocation >= 0: %s [month %d]" % (key, m), A[key][m] >= 0) for m in range(N)]
    spec.append(("objective >= 0", zobj >= 0))
    u_sf = lambda m: a("stored_food_to_humans", m) * wf("stored_food") + a("stored_food_feed", m) + a("stored_food_biofuel", m)
    u_cr = lambda m: a("crops_food_to_humans", m) * wf("crops_food") + a("crops_food_feed", m) + a("crops_food_biofuel", m)
    u_mt = lambda m: a("meat_eaten", m) * wf("meat")
    cum = lambda f, m: z3.Sum([f(j) for j in range(m + 1)]) if m >= 0 else q(0)
    F = cfg["flags"]
    if F.get("STORED_FOOD"):
        for m in range(N):
            spec.append(("spec stored food cumulative [month %d]" % m, cum(u_sf, m) <= S["sf0"]))
            if not cfg["store"] and m > 12:
                spec.append(("spec stored food unusable after the first year [month %d]" % m, z3.And(a("stored_food_to_humans", m) == 0, a("stored_food_feed", m) == 0, a("stored_food_biofuel", m) == 0)))
        if human and cfg["store"]:
            spec.append(("spec stored food fully used", cum(u_sf, N - 1) == S["sf0"]))
    if F.get("OUTDOOR_GROWING"):
        for m in range(N):
            spec.append(("spec crops cumulative [month %d]" % m, cum(u_cr, m) <= z3.Sum([zz_s(S["crops"][j]) for j in range(m + 1)])))
        if human:
            spec.append(("spec crops fully used", cum(u_cr, N - 1) == z3.Sum([zz_s(x) for x in S["crops"]])))
    if F.get("MEAT"):
        for m in range(N):
            if cfg["store"]:
                spec.append(("spec meat cumulative [month %d]" % m, cum(u_mt, m) <= z3.Sum([S["slaughter"][j] for j in range(m + 1)])))
            else:
                spec.append(("spec meat monthly [month %d]" % m, u_mt(m) <= S["slaughter"][m]))
    if F.get("METHANE_SCP"):
        for m in range(N):
            spec.append(("spec scp monthly [month %d]" % m, a("methane_scp_to_humans", m) * wf("methane_scp") + a("methane_scp_feed", m) + a("methane_scp_biofuel", m) <= S["scp"][m]))
    if F.get("CELLULOSIC_SUGAR"):
        for m in range(N):
            spec.append(("spec cs monthly [month %d]" % m, a("cellulosic_sugar_to_humans", m) * wf("cellulosic_sugar") + a("cellulosic_sugar_feed", m) + a("cellulosic_sugar_biofuel", m) <= S["cs"][m]))
    if F.get("SEAWEED"):
        for m in range(N):
            built = zz_s(S["area"][m])
            spec.append(("spec seaweed biomass bounds [month %d]" % m, z3.And(a("seaweed_wet_on_farm", m) >= q(c["INITIAL_SEAWEED"]), a("seaweed_wet_on_farm", m) <= q(c["MAXIMUM_DENSITY"]) * built)))
            spec.append(("spec seaweed area bounds [month %d]" % m, z3.And(a("used_area", m) >= q(c["INITIAL_BUILT_SEAWEED_AREA"]), a("used_area", m) <= built)))
            if m == 0:
                spec.append(("spec seaweed start", z3.And(a("seaweed_wet_on_farm", 0) == q(c["INITIAL_SEAWEED"]), a("used_area", 0) == q(c["INITIAL_BUILT_SEAWEED_AREA"]),
                                                          a("seaweed_to_humans", 0) == 0, a("seaweed_feed", 0) == 0, a("seaweed_biofuel", 0) == 0)))
            else:
                g = q(1) + q(M.growth[m]) / 100
                spec.append(("spec seaweed ledger [month %d]" % m, a("seaweed_wet_on_farm", m) == a("seaweed_wet_on_farm", m - 1) * g - a("seaweed_to_humans", m) * wf("seaweed") - a("seaweed_feed", m)
                             - a("seaweed_biofuel", m) - (a("used_area", m) - a("used_area", m - 1)) * q(c["MINIMUM_DENSITY"]) * (q(c["HARVEST_LOSS"]) / 100)))
    fsum = lambda m: a("stored_food_feed", m) + a("crops_food_feed", m) + a("seaweed_feed", m) * K + a("cellulosic_sugar_feed", m) + a("methane_scp_feed", m)
    bsum = lambda m: a("stored_food_biofuel", m) + a("crops_food_biofuel", m) + a("seaweed_biofuel", m) * K + a("cellulosic_sugar_biofuel", m) + a("methane_scp_biofuel", m)
    pct = lambda m: (a("stored_food_to_humans", m) + a("crops_food_to_humans", m) + a("seaweed_to_humans", m) * K + zz_s(S["milk"][m]) + a("meat_eaten", m)
                     + a("cellulosic_sugar_to_humans", m) + a("methane_scp_to_humans", m) + zz_s(S["gh"][m]) + zz_s(S["fish"][m])) / need * 100
    any_edible = not degenerate(M)
    for m in range(N):
        if human:
            if any_edible:
                spec.append(("spec feed total == charge [month %d]" % m, fsum(m) == zz_s(S["feed"][m])))
                spec.append(("spec biofuel total == charge [month %d]" % m, bsum(m) == zz_s(S["biofuel"][m])))
            spec.append(("spec objective <= percent fed [month %d]" % m, zobj <= pct(m)))
        else:
            if any_edible:
                spec.append(("spec feed total <= ceiling [month %d]" % m, fsum(m) <= zz_s(S["max_feed"][m])))
                spec.append(("spec biofuel total <= ceiling [month %d]" % m, bsum(m) <= zz_s(S["max_biofuel"][m])))
                if m > 0:
                    spec.append(("spec feed never rises [month %d]" % m, fsum(m) <= fsum(m - 1)))
                    spec.append(("spec biofuel never rises [month %d]" % m, bsum(m) <= bsum(m - 1)))
        # documented caps on the share of resilient foods
        for food, key, ratio in (("SEAWEED", "seaweed", K), ("METHANE_SCP", "methane_scp", q(1)), ("CELLULOSIC_SUGAR", "cellulosic_sugar", q(1))):
            if not F.get(food):
                continue
            h, f, b = cfg["caps"][food]
            if human:
                spec.append(("spec %s cap for humans vs initial need [month %d]" % (key, m), a(key + "_to_humans", m) * ratio <= q(h / 100) * need))
                spec.append(("spec %s cap for humans vs actual intake [month %d]" % (key, m), a(key + "_to_humans", m) * ratio <= q(h / 100) * (pct(m) * need / 100)))
            charge_f = zz_s(S["feed"][m])
            charge_b = zz_s(S["biofuel"][m])
            spec.append(("spec %s share of feed [month %d]" % (key, m), a(key + "_feed", m) * ratio <= q(f / 100) * charge_f))
            spec.append(("spec %s share of biofuel [month %d]" % (key, m), a(key + "_biofuel", m) * ratio <= q(b / 100) * charge_b))
    if not human:
        # pinned human consumption (within the tolerance the round applies) and the weighted objective
        tol = 1e-4 if cfg["pop"] < 1e7 else 1e-5
        pinmap = dict(outdoor_crops=("crops_food_to_humans", q(1), "OUTDOOR_GROWING"), stored_food=("stored_food_to_humans", q(1), "STORED_FOOD"), meat=("meat_eaten", q(1), "MEAT"),
                      methane_scp=("methane_scp_to_humans", q(1), "METHANE_SCP"), cellulosic_sugar=("cellulosic_sugar_to_humans", q(1), "CELLULOSIC_SUGAR"), seaweed=("seaweed_to_humans", K, "SEAWEED"))
        for food, (key, ratio, flag) in pinmap.items():
            if not F.get(flag):
                continue
            for m in range(N):
                p = S["pins"][food][m]
                spec.append(("spec pinned human consumption of %s [month %d]" % (food, m), z3.And(a(key, m) * ratio >= q(1 - tol) * p, a(key, m) * ratio <= q(1 + tol) * p)))
        spec.append(("spec objective <= 2/3 feed + 1/3 biofuel", zobj <= q(2 / 3) * z3.Sum([fsum(m) for m in range(N)]) + z3.Sum([bsum(m) for m in range(N)]) / 3))
    # ---- substitution: every code variable as an expression over allocations and supplies
    sub = []
    V = M.V

    def link(key, m, term):
        cv = V[key][m]
        if hasattr(cv, "z") and z3.is_const(cv.z) and cv.z.decl().kind() == z3.Z3_OP_UNINTERPRETED:
            sub.append((cv.z, term))
    for m in range(N):
        for key in DECISIONS:
            link(key, m, A[key][m])
        link("stored_food_start", m, S["sf0"] - cum(u_sf, m - 1))
        link("stored_food_end", m, S["sf0"] - cum(u_sf, m))
        link("crops_food_consumed", m, u_cr(m))
        link("crops_food_storage", m, z3.Sum([zz_s(S["crops"][j]) for j in range(m + 1)]) - cum(u_cr, m))
        tot = z3.Sum(list(S["slaughter"]))
        link("meat_start", m, tot - cum(u_mt, m - 1))
        link("meat_end", m, tot - cum(u_mt, m))
        if human:
            link("consumed_kcals", m, pct(m))
        for key in ("consumed_fat", "consumed_protein", "crops_food_consumed_fat", "crops_food_consumed_protein", "crops_food_to_humans_fat", "crops_food_feed_fat", "crops_food_biofuel_fat",
                    "crops_food_to_humans_protein", "crops_food_feed_protein", "crops_food_biofuel_protein"):
            if isinstance(V[key][m], (int, float)):
                continue
            link(key, m, q(0))
    sub.append((V["objective_function"].z, zobj))
    return A, spec, zobj, sub
