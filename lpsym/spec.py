"""Physical audit clauses and the independent specification LP, written from the supplies only (C01, C02).

All functions take a lpsym.model.Model `M` and return lists of (name, z3 Bool).  Nothing here looks at M.cons."""
import z3

from .model import zz, W, q


def _v(M, key, m):
    return zz(M.V[key][m])


def gross(M, key, m):
    """what people draw from the supply per unit eaten: eaten / (1 - retail waste)"""
    return _v(M, key, m) * W(M.cfg)


def used_stored(M, m):
    return gross(M, "stored_food_to_humans", m) + _v(M, "stored_food_feed", m) + _v(M, "stored_food_biofuel", m)


def used_crops(M, m):
    return gross(M, "crops_food_to_humans", m) + _v(M, "crops_food_feed", m) + _v(M, "crops_food_biofuel", m)


def feed_sum(M, m):
    K = q(M.cfg["seaweed_kcals"])
    return _v(M, "stored_food_feed", m) + _v(M, "crops_food_feed", m) + _v(M, "seaweed_feed", m) * K + _v(M, "cellulosic_sugar_feed", m) + _v(M, "methane_scp_feed", m)


def biofuel_sum(M, m):
    K = q(M.cfg["seaweed_kcals"])
    return _v(M, "stored_food_biofuel", m) + _v(M, "crops_food_biofuel", m) + _v(M, "seaweed_biofuel", m) * K + _v(M, "cellulosic_sugar_biofuel", m) + _v(M, "methane_scp_biofuel", m)


def eaten_percent(M, m):
    """percent of the population's monthly need that people eat in month m (net of retail waste)"""
    K = q(M.cfg["seaweed_kcals"])
    S = M.S
    eaten = (_v(M, "stored_food_to_humans", m) + _v(M, "crops_food_to_humans", m) + _v(M, "seaweed_to_humans", m) * K + zz_s(S["milk"][m]) + _v(M, "meat_eaten", m)
             + _v(M, "cellulosic_sugar_to_humans", m) + _v(M, "methane_scp_to_humans", m) + zz_s(S["gh"][m]) + zz_s(S["fish"][m]))
    need = q(M.cfg["pop"]) * q(M.cfg["kcals_daily"]) * 30 / q(1e9)
    return eaten / need * 100


def zz_s(x):
    return x if z3.is_expr(x) else q(x)


def audit(M):
    """the clauses of C01 for this round type; each is (name, formula)."""
    cfg, S, N = M.cfg, M.S, M.cfg["N"]
    F = cfg["flags"]
    human_round = cfg["opt"] == "to_humans"
    out = []
    cum = lambda f, m: z3.Sum([f(M, j) for j in range(m + 1)]) if m >= 0 else q(0)
    if F.get("STORED_FOOD"):
        for m in range(N):
            out.append(("stored food: cumulative use <= initial stock [month %d]" % m, cum(used_stored, m) <= S["sf0"]))
        if human_round and cfg["store"]:
            out.append(("stored food: fully used by the last month", cum(used_stored, N - 1) == S["sf0"]))
        if not cfg["store"]:
            for m in range(13, N):
                out.append(("stored food: none used after the first year when nothing is stored between years [month %d]" % m, used_stored(M, m) == 0))
    if F.get("OUTDOOR_GROWING"):
        for m in range(N):
            out.append(("crops: cumulative use <= harvested so far [month %d]" % m, cum(used_crops, m) <= z3.Sum([zz_s(S["crops"][j]) for j in range(m + 1)])))
        if human_round:
            out.append(("crops: fully used by the last month", cum(used_crops, N - 1) == z3.Sum([zz_s(x) for x in S["crops"]])))
    if F.get("MEAT"):
        for m in range(N):
            if cfg["store"]:
                out.append(("meat: cumulative use <= slaughtered so far [month %d]" % m, z3.Sum([gross(M, "meat_eaten", j) for j in range(m + 1)]) <= z3.Sum([S["slaughter"][j] for j in range(m + 1)])))
            else:
                out.append(("meat: monthly use <= slaughtered that month (no storage) [month %d]" % m, gross(M, "meat_eaten", m) <= S["slaughter"][m]))
    if F.get("METHANE_SCP"):
        for m in range(N):
            out.append(("single-cell protein: monthly use <= that month's output [month %d]" % m,
                        gross(M, "methane_scp_to_humans", m) + _v(M, "methane_scp_feed", m) + _v(M, "methane_scp_biofuel", m) <= S["scp"][m]))
    if F.get("CELLULOSIC_SUGAR"):
        for m in range(N):
            out.append(("cellulosic sugar: monthly use <= that month's output [month %d]" % m,
                        gross(M, "cellulosic_sugar_to_humans", m) + _v(M, "cellulosic_sugar_feed", m) + _v(M, "cellulosic_sugar_biofuel", m) <= S["cs"][m]))
    if F.get("SEAWEED"):
        c = M.consts
        for m in range(N):
            wet, area = _v(M, "seaweed_wet_on_farm", m), _v(M, "used_area", m)
            built = zz_s(S["area"][m])
            out.append(("seaweed: biomass >= starting level [month %d]" % m, wet >= q(c["INITIAL_SEAWEED"])))
            out.append(("seaweed: biomass <= density limit of the built farm area [month %d]" % m, wet <= q(c["MAXIMUM_DENSITY"]) * built))
            out.append(("seaweed: used area within [initial, built] [month %d]" % m, z3.And(area >= q(c["INITIAL_BUILT_SEAWEED_AREA"]), area <= built)))
            if m == 0:
                out.append(("seaweed: starts at the initial biomass and area, nothing harvested in month 0",
                            z3.And(wet == q(c["INITIAL_SEAWEED"]), area == q(c["INITIAL_BUILT_SEAWEED_AREA"]), _v(M, "seaweed_to_humans", 0) == 0, _v(M, "seaweed_feed", 0) == 0, _v(M, "seaweed_biofuel", 0) == 0)))
            else:
                g = q(1) + q(M.growth[m]) / 100
                led = (_v(M, "seaweed_wet_on_farm", m - 1) * g - gross(M, "seaweed_to_humans", m) - _v(M, "seaweed_feed", m) - _v(M, "seaweed_biofuel", m)
                       - (area - _v(M, "used_area", m - 1)) * q(c["MINIMUM_DENSITY"]) * (q(c["HARVEST_LOSS"]) / 100))
                out.append(("seaweed: growth-and-harvest ledger [month %d]" % m, wet == led))
    for m in range(N):
        if human_round:
            out.append(("feed total == amount charged [month %d]" % m, feed_sum(M, m) == zz_s(S["feed"][m])))
            out.append(("biofuel total == amount charged [month %d]" % m, biofuel_sum(M, m) == zz_s(S["biofuel"][m])))
        else:
            out.append(("feed total <= demand ceiling [month %d]" % m, feed_sum(M, m) <= zz_s(S["max_feed"][m])))
            out.append(("biofuel total <= demand ceiling [month %d]" % m, biofuel_sum(M, m) <= zz_s(S["max_biofuel"][m])))
            if m > 0:
                out.append(("feed use never rises from one month to the next [month %d]" % m, feed_sum(M, m) <= feed_sum(M, m - 1)))
    return out


def degenerate(M):
    """does this configuration have any feed/biofuel variable at all? (the code skips the sum constraints when every term is the constant 0)"""
    F = M.cfg["flags"]
    return not any(F.get(k) for k in ("STORED_FOOD", "OUTDOOR_GROWING", "SEAWEED", "CELLULOSIC_SUGAR", "METHANE_SCP"))
