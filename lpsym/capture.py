"""Real PuLP models -> z3: (a) LpProblem.to_dict() of models built by the real code from concrete inputs, (b) capture of the three
optimisation rounds of a real country run."""
import contextlib
import io
import os
import tempfile
import time
from fractions import Fraction

import z3


def rat(x):
    f = Fraction(x)
    return z3.RatVal(f.numerator, f.denominator)


def dict_to_z3(d, prefix=""):
    """LpProblem.to_dict() -> (vars: name->z3 Real, bounds: [Bool], cons: name->Bool, objective term)"""
    X = {v["name"]: z3.Real(prefix + v["name"]) for v in d["variables"]}
    bounds = []
    for v in d["variables"]:
        if v["lowBound"] is not None:
            bounds.append(X[v["name"]] >= rat(v["lowBound"]))
        if v["upBound"] is not None:
            bounds.append(X[v["name"]] <= rat(v["upBound"]))
    cons = {}
    for k in d["constraints"]:
        e = z3.Sum([rat(t["value"]) * X[t["name"]] for t in k["coefficients"]]) + rat(k["constant"]) if k["coefficients"] else rat(k["constant"])
        s = k["sense"]
        cons[k["name"]] = (e == 0) if s == 0 else ((e <= 0) if s == -1 else (e >= 0))
    obj = z3.Sum([rat(t["value"]) * X[t["name"]] for t in d["objective"]["coefficients"]]) if d["objective"]["coefficients"] else rat(0)
    return X, bounds, cons, obj


def real_first_stage_dict(cfg, vals, growth):
    """the first-stage LpProblem the REAL code builds with REAL PuLP for concrete supplies (no solve)"""
    import src.optimizer.optimizer as om
    from pulp import LpProblem, LpMaximize
    from .queries import concrete_inputs
    consts, tc, pins = concrete_inputs(cfg, vals, growth)
    o = om.Optimizer(consts, tc)
    if pins is not None:
        o.time_consts["min_human_food_consumption"] = pins
    model = LpProblem(name="m", sense=LpMaximize)
    variables = o.initial_variables.copy()
    model, variables, mc = o.add_variables_and_constraints_to_model(model, variables, consts, cfg["opt"])
    return model.to_dict()


class Captured:
    pass


def capture_country(country, scenario, nmonths, title="vp_capture"):
    """runs the real three-round pipeline for one country and captures, per optimisation round, the first-stage LP (to_dict before the first solve),
    CBC's first-stage objective value, the final variable values and the Optimizer inputs."""
    import src.optimizer.optimizer as om
    import src.optimizer.interpret_results as ir
    from src.scenarios.run_model_no_trade import ScenarioRunnerNoTrade
    rounds = []
    orig_run = om.Optimizer.run_optimizations_on_constraints

    def wrap(self, model, variables, consts, optimization_type):
        d = model.to_dict()
        t = time.time()
        r = orig_run(self, model, variables, consts, optimization_type)
        c = Captured()
        c.type, c.first_stage, c.obj, c.N, c.solve_s = optimization_type, d, r, self.NMONTHS, time.time() - t
        c.consts, c.tc = self.consts_for_optimizer, self.time_consts
        c.values = {}
        for k, v in variables.items():
            if isinstance(v, list):
                c.values[k] = [(x.varValue if hasattr(x, "varValue") else float(x)) for x in v]
        rounds.append(c)
        return r
    old_root = ir.repo_root
    tmp = tempfile.mkdtemp(prefix="vp_results_")
    os.mkdir(os.path.join(tmp, "results"))
    om.Optimizer.run_optimizations_on_constraints = wrap
    ir.repo_root = tmp
    try:
        sc = dict(scenario)
        sc["NMONTHS"] = nmonths
        with contextlib.redirect_stdout(io.StringIO()):
            res = ScenarioRunnerNoTrade().run_model_no_trade(title=title, create_pptx_with_all_countries=False, show_country_figures=False, show_map_figures=False,
                                                             add_map_slide_to_pptx=False, scenario_option=sc, countries_list=[country], return_results=True)
    finally:
        om.Optimizer.run_optimizations_on_constraints = orig_run
        ir.repo_root = old_root
        import shutil
        shutil.rmtree(tmp, ignore_errors=True)
    return rounds, res
