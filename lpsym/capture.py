"""Real PuLP models -> z3: (a) LpProblem.to_dict() of models built by the real code from concrete inputs, (b) capture of the three
optimisation rounds of a real country run."""
import contextlib
import io
import os
import tempfile
import time
from fractions import Fraction

import z3


def rat(x):
    f = Fraction(x)
    return z3.RatVal(f.numerator, f.denominator)


def dict_to_z3(d, prefix=""):
    """LpProblem.to_dict() -> (vars: name->z3 Real, bounds: [Bool], cons: name->Bool, objective term)"""
    X = {v["name"]: z3.Real(prefix + v["name"]) for v in d["variables"]}
    bounds = []
    for v in d["variables"]:
        if v["lowBound"] is not None:
            bounds.append(X[v["name"]] >= rat(v["lowBound"]))
        if v["upBound"] is not None:
            bounds.append(X[v["name"]] <= rat(v["upBound"]))
    cons = {}
    for k in d["constraints"]:
        e = z3.Sum([rat(t["value"]) * X[t["name"]] for t in k["coefficients"]]) + rat(k["constant"]) if k["coefficients"] else rat(k["constant"])
        s = k["sense"]
        cons[k["name"]] = (e == 0) if s == 0 else ((e <= 0) if s == -1 else (e >= 0))
    obj = z3.Sum([rat(t["value"]) * X[t["name"]] for t in d["objective"]["coefficients"]]) if d["objective"]["coefficients"] else rat(0)
    return X, bounds, cons, obj


def real_first_stage_dict(cfg, vals, growth):
    """the first-stage LpProblem the REAL code builds with REAL PuLP for concrete supplies (no solve)"""
    import src.optimizer.optimizer as om
    from pulp import LpProblem, LpMaximize
    from .queries import concrete_inputs
    consts, tc, pins = concrete_inputs(cfg, vals, growth)
    o = om.Optimizer(consts, tc)
    if pins is not None:
        o.time_consts["min_human_food_consumption"] = pins
    model = LpProblem(name="m", sense=LpMaximize)
    variables = o.initial_variables.copy()
    model, variables, mc = o.add_variables_and_constraints_to_model(model, variables, consts, cfg["opt"])
    return model.to_dict()


class Captured:
    pass


def capture_country(country, scenario, nmonths, title="vp_capture"):
    """runs the real three-round pipeline for one country and captures, per optimisation round, the first-stage LP (to_dict before the first solve),
    CBC's first-stage objective value, the final variable values and the Optimizer inputs."""
    import src.optimizer.optimizer as om
    import src.optimizer.interpret_results as ir
    from src.scenarios.run_model_no_trade import ScenarioRunnerNoTrade
    rounds = []
    orig_run = om.Optimizer.run_optimizations_on_constraints

    def wrap(self, model, variables, consts, optimization_type):
        d = model.to_dict()
        t = time.time()
        r = orig_run(self, model, variables, consts, optimization_type)
        c = Captured()
        c.type, c.first_stage, c.obj, c.N, c.solve_s = optimization_type, d, r, self.NMONTHS, time.time() - t
        c.consts, c.tc = self.consts_for_optimizer, self.time_consts
        c.values = {}
        for k, v in variables.items():
            if isinstance(v, list):
                c.values[k] = [(x.varValue if hasattr(x, "varValue") else float(x)) for x in v]
        rounds.append(c)
        return r
    old_root = ir.repo_root
    tmp = tempfile.mkdtemp(prefix="vp_results_")
    os.mkdir(os.path.join(tmp, "results"))
    om.Optimizer.run_optimizations_on_constraints = wrap
    ir.repo_root = tmp
    try:
        sc = dict(scenario)
        sc["NMONTHS"] = nmonths
        with contextlib.redirect_stdout(io.StringIO()):
            res = ScenarioRunnerNoTrade().run_model_no_trade(title=title, create_pptx_with_all_countries=False, show_country_figures=False, show_map_figures=False,
                                                             add_map_slide_to_pptx=False, scenario_option=sc, countries_list=[country], return_results=True)
    finally:
        om.Optimizer.run_optimizations_on_constraints = orig_run
        ir.repo_root = old_root
        import shutil
        shutil.rmtree(tmp, ignore_errors=True)
    return rounds, res


def model_from_capture(c):
    """a lpsym.model.Model-like view of a captured real round: LP variables by their real PuLP names, supplies as the concrete values of the run.
    Lets lpsym.spec.audit() be asked of the LP a real run built (real coefficients, real horizon)."""
    import numpy as np
    from .model import FOODS, q
    from .standin import E
    consts, tc = c.consts, c.tc
    N = c.N
    X, bounds, cons, obj = dict_to_z3(c.first_stage)
    low = {v["name"]: v["lowBound"] for v in c.first_stage["variables"]}

    class M:
        pass
    M = M()
    flags = {f: bool(consts["ADD_" + f]) for f in FOODS}
    from .model import WASTE_KEYS
    M.cfg = dict(N=N, opt=c.type, store=bool(consts["STORE_FOOD_BETWEEN_YEARS"]), retail=float(consts["STORED_FOOD_WASTE_RETAIL"]), retail_by={pre: float(consts[key]) for pre, key in WASTE_KEYS.items()},
                 pop=float(consts["POP"]),
                 kcals_daily=float(consts["KCALS_MONTHLY"]) / 30.0, seaweed_kcals=float(consts["SEAWEED_KCALS"]), flags=flags, rotation=bool(consts["inputs"]["OG_USE_BETTER_ROTATION"]))
    M.consts = consts
    M.growth = [float(x) for x in tc["growth_rates_monthly"]]
    prefixes = ["stored_food_start", "stored_food_end", "stored_food_to_humans", "stored_food_feed", "stored_food_biofuel", "methane_scp_to_humans", "methane_scp_feed", "methane_scp_biofuel",
                "cellulosic_sugar_to_humans", "cellulosic_sugar_feed", "cellulosic_sugar_biofuel", "meat_start", "meat_end", "meat_eaten", "crops_food_storage", "crops_food_consumed",
                "crops_food_to_humans", "crops_food_feed", "crops_food_biofuel", "seaweed_wet_on_farm", "seaweed_to_humans", "seaweed_feed", "seaweed_biofuel", "used_area"]

    def camel(p):
        special = {"methane_scp": "Methane_SCP"}
        out = "_".join(w.capitalize() for w in p.split("_"))
        return out.replace("Methane_Scp", "Methane_SCP")
    V = {}
    for p in prefixes:
        names = ["%s_Month_%d_Variable" % (camel(p), m) for m in range(N)]
        V[p] = [E(X[n]) if n in X else 0 for n in names]
    V["consumed_kcals"] = [E(X["Humans_Fed_Kcals_%d_Variable" % m]) if ("Humans_Fed_Kcals_%d_Variable" % m) in X else 0 for m in range(N)]
    V["objective_function"] = E(X["Objective_To_Optimize"])
    M.V = V
    f = lambda a: [float(x) for x in np.asarray(a, dtype=float)]
    S = dict(sf0=float(np.asarray(consts["stored_food"].initial_available.kcals).reshape(-1)[0]) if flags["STORED_FOOD"] else 0.0,
             slaughter=f(tc["each_month_meat_slaughtered"].kcals), crops=f(tc["outdoor_crops"].production.kcals), scp=f(tc["methane_scp"].kcals), cs=f(tc["cellulosic_sugar"].kcals),
             milk=f(tc["milk_kcals"]), gh=f(tc["greenhouse_crops"].kcals), fish=f(tc["fish"].to_humans.kcals), feed=f(tc["feed"].kcals), biofuel=f(tc["biofuel"].kcals), area=f(tc["built_area"]))
    S["max_feed"] = f(tc["max_feed_that_could_be_used"].kcals) if "max_feed_that_could_be_used" in tc else [0.0] * N
    S["max_biofuel"] = f(tc["max_biofuel_that_could_be_used"].kcals) if "max_biofuel_that_could_be_used" in tc else [0.0] * N
    # spec.audit works on z3 terms / numbers: wrap concrete supplies as exact rationals
    M.S = {k: ([q(x) for x in v] if isinstance(v, list) else q(v)) for k, v in S.items()}
    M.S_float = S
    M.cons, M.bounds, M.X, M.objective = cons, bounds, X, obj
    M.all_lower_bounded = all(low[n] is not None and low[n] >= 0 for n in low)
    # the running total the code was given must be the cumulative slaughter (the audit is written from the slaughter series)
    M.running_given = f(tc["max_consumed_culled_kcals_each_month"])
    return M
