"""A z3-backed stand-in for the small part of PuLP that src/optimizer/optimizer.py uses.  The repository's real
model-building code runs unmodified against it: variables are z3 reals, expressions are z3 terms, `model += (c, name)`
records a named formula (duplicate names rejected as PuLP does), `model += expr` sets the objective."""
import types
from fractions import Fraction

import z3


def q(o):
    """exact rational of a python number"""
    if isinstance(o, bool):
        raise TypeError("bool in LP expression")
    if isinstance(o, int):
        return z3.RealVal(o)
    if isinstance(o, Fraction):
        return z3.RatVal(o.numerator, o.denominator)
    if isinstance(o, float):
        f = Fraction(o)
        return z3.RatVal(f.numerator, f.denominator)
    import numbers
    if isinstance(o, numbers.Integral):
        return z3.RealVal(int(o))
    if isinstance(o, numbers.Real):
        f = Fraction(float(o))
        return z3.RatVal(f.numerator, f.denominator)
    raise TypeError("cannot lift %r" % type(o))


class E:
    """linear expression"""
    __slots__ = ("z",)
    __array_priority__ = 1000

    def __init__(self, z):
        self.z = z if z3.is_expr(z) else q(z)

    @staticmethod
    def lift(o):
        if isinstance(o, E):
            return o
        if isinstance(o, C):
            return E(o.e)          # PuLP: an LpConstraint used as an expression is its lhs - rhs
        return E(q(o))

    def __add__(s, o):
        return E(s.z + E.lift(o).z)

    __radd__ = __add__

    def __sub__(s, o):
        return E(s.z - E.lift(o).z)

    def __rsub__(s, o):
        return E(E.lift(o).z - s.z)

    def __mul__(s, o):
        return E(s.z * E.lift(o).z)

    __rmul__ = __mul__

    def __truediv__(s, o):
        return E(s.z / E.lift(o).z)

    def __rtruediv__(s, o):
        return E(E.lift(o).z / s.z)

    def __neg__(s):
        return E(-s.z)

    def __pos__(s):
        return s

    # strict comparisons never build LP rows: code that writes `a > b` on two supplies is BRANCHING on supply values.  The stand-in follows a decision tape
    # (True first), logs every decision with its z3 condition, and the caller re-runs the builder with the alternative tapes (lpsym.model.build_all).
    def __gt__(s, o):
        return Cond(s.z > E.lift(o).z)

    def __lt__(s, o):
        return Cond(s.z < E.lift(o).z)

    def __le__(s, o):
        return C(s.z - E.lift(o).z, "le")

    def __ge__(s, o):
        return C(s.z - E.lift(o).z, "ge")

    def __eq__(s, o):
        return C(s.z - E.lift(o).z, "eq")

    __hash__ = None

    def value(s):
        return VALUE_OF(s)

    def __repr__(s):
        return "E(%s)" % (str(s.z)[:50],)


def VALUE_OF(e):
    """what `.value()` / `.varValue` return in later optimisation stages: a fresh symbol constrained by the caller"""
    raise RuntimeError("value requested but no value hook installed")


class C:
    """constraint `e (sense) 0`.  Like pulp.LpConstraint it is also an affine expression (lhs - rhs): the repository adds constraints to
    running sums and puts them on the right-hand side of another comparison, which PuLP silently accepts (the sense is dropped)."""
    __slots__ = ("e", "sense")

    def __init__(s, e, sense):
        s.e = e
        s.sense = sense

    @property
    def b(s):
        zero = z3.RealVal(0)
        return s.e <= zero if s.sense == "le" else (s.e >= zero if s.sense == "ge" else s.e == zero)

    def __add__(s, o):
        return C(s.e + E.lift(o).z, s.sense)

    __radd__ = __add__

    def __bool__(s):
        raise TypeError("LP constraint used as a truth value")


class Var(E):
    __slots__ = ("name", "lowBound", "upBound", "_val")

    def __init__(s, name, lowBound=None, upBound=None, cat=None):
        E.__init__(s, z3.Real(name))
        s.name = name
        s.lowBound = lowBound
        s.upBound = upBound
        s._val = None
        REG.vars.append(s)

    @property
    def varValue(s):
        return REG.value_hook(s)


BRANCH = dict(tape=[], pos=0, log=[])


class Cond:
    """a strict comparison of two supply expressions used as a Python truth value"""
    __slots__ = ("z",)

    def __init__(self, z):
        self.z = z

    def __bool__(self):
        zs = z3.simplify(self.z)
        if z3.is_true(zs):
            return True
        if z3.is_false(zs):
            return False
        i = BRANCH["pos"]
        d = BRANCH["tape"][i] if i < len(BRANCH["tape"]) else True
        BRANCH["pos"] = i + 1
        BRANCH["log"].append((self.z, d))
        return d


class Registry:
    def __init__(self):
        self.vars = []
        self.snapshots = []
        self.fresh = 0
        self.values = {}      # (stage, var name) -> z3 Real standing for the value CBC reported
        self.objvals = []     # [(z3 Real standing for objective.value(), objective term, stage)]

    def value_hook(self, v):
        key = (len(self.snapshots), v.name)
        if key not in self.values:
            self.values[key] = z3.Real("value_stage%d!%s" % key)
        return E(self.values[key])

    def objective_hook(self, e):
        r = z3.Real("objective_value_stage%d" % len(self.snapshots))
        self.objvals.append((r, e.z, len(self.snapshots)))
        return E(r)


REG = Registry()


class Problem:
    def __init__(s, name=None, sense=None):
        s.name = name
        s.sense = sense
        s.cons = {}
        s.objective = None
        s.solve_calls = 0

    def __iadd__(s, other):
        if isinstance(other, tuple):
            c, nm = other
            if not isinstance(c, C):
                raise TypeError("constraint %r is %r, not a constraint (degenerate python comparison?)" % (nm, type(c)))
            if nm in s.cons:
                raise AssertionError("duplicate constraint name " + nm)
            s.cons[nm] = c.b
        elif isinstance(other, E):
            s.objective = _Obj(other)
        else:
            raise TypeError(type(other))
        return s

    def setObjective(s, e):
        s.objective = _Obj(E.lift(e))

    def copy(s):
        p = Problem(s.name, s.sense)
        p.cons = dict(s.cons)
        p.objective = s.objective
        p.solve_calls = s.solve_calls
        return p

    def solve(s, *a, **k):
        s.solve_calls += 1
        REG.snapshots.append(dict(cons=dict(s.cons), objective=s.objective.e.z if s.objective is not None else None, sense=s.sense, nvars=len(REG.vars)))
        return 1

    def variables(s):
        return list(REG.vars)

    def to_dict(s):
        return {}


class _Obj:
    def __init__(s, e):
        s.e = e

    def value(s):
        return REG.objective_hook(s.e)


def install(om):
    """rebind the PuLP names in the optimizer module; returns an undo function"""
    saved = (om.LpVariable, om.LpProblem, om.pulp, om.LpMaximize, om.LpMinimize)
    om.LpVariable = Var
    om.LpProblem = Problem
    om.pulp = types.SimpleNamespace(PULP_CBC_CMD=lambda **k: None, LpVariable=Var, pulp=types.SimpleNamespace(LpVariable=Var))

    def undo():
        om.LpVariable, om.LpProblem, om.pulp, om.LpMaximize, om.LpMinimize = saved
    return undo


def reset(tape=()):
    BRANCH["tape"], BRANCH["pos"], BRANCH["log"] = list(tape), 0, []
    REG.vars = []
    REG.snapshots = []
    REG.values = {}
    REG.objvals = []
