import argparse, importlib, os, sys, glob
HERE = os.path.dirname(os.path.abspath(__file__))
sys.path.insert(0, HERE)
import vlib

def main():
    ap = argparse.ArgumentParser()
    ap.add_argument("pid")
    ap.add_argument("--tier", default=os.environ.get("VERIF_TIER", "quick"), choices=["quick", "thorough"])
    ap.add_argument("--replay", default=None)
    ap.add_argument("--only", default=None, help="comma separated group names (debugging)")
    a = ap.parse_args()
    seed = int(os.environ.get("VERIF_SEED", "0") or 0)
    vlib.enter_repo()
    mods = [os.path.basename(p)[:-3] for p in glob.glob(os.path.join(HERE, "harness", a.pid + "_*.py"))]
    if len(mods) != 1:
        print("no unique harness for", a.pid, mods); sys.exit(2)
    mod = importlib.import_module("harness." + mods[0])
    if a.replay:
        sys.exit(mod.replay_file(a.replay))
    try:
        rc = mod.main(a.tier, seed, only=a.only.split(",") if a.only else None)
    except SystemExit:
        raise
    except BaseException as e:
        import traceback; traceback.print_exc()
        print("%s: harness error (%s) -> inconclusive" % (a.pid, type(e).__name__))
        rc = 2
    sys.stdout.flush()
    os._exit(rc)
if __name__ == '__main__':
    main()
