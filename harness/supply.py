"""Shared builders and closed-form oracles for the supply-series harnesses (C08, C09).
Oracles are written from the property statement / the documented schedule, not from the code under test."""
import numpy as np

SEASON = [0.02, 0.03, 0.05, 0.07, 0.09, 0.11, 0.13, 0.12, 0.14, 0.10, 0.08, 0.06]   # Jan..Dec, all distinct, sums to 1
SEED_FRACTION = 92 / 3898            # share of the crop kept as seed (documented in outdoor_crops.py)
START_MONTH = 5                      # Parameters.SIMULATION_STARTING_MONTH_NUM: the simulation starts in May
BILLION_KCALS_PER_TON = 4e6 / 1e9    # dry caloric ton -> billion kcals


def year_of_month(m):
    """model year (1-based) of simulated month m: year 1 is May-December (8 months), then 12-month years, the last one runs on."""
    return 1 if m < 8 else min(10, 2 + (m - 8) // 12)


def calendar_index(m):
    """January-based calendar month index of simulated month m."""
    return (START_MONTH - 1 + m) % 12


def year1_ratio(r1, season, country="XXX"):
    """documented first-year rule: only the harvest after May is affected; returns the ratio applied to May-December."""
    before = {"ZAF": 1, "JPN": 0, "PRK": 0, "KOR": 0}.get(country, sum(season[:4]))
    after_nw = r1 - before
    if after_nw < 0:
        after_nw = 0
    if after_nw > 0:
        after = 1 - before
        if after < 0.25:
            return 1
        return after_nw / after
    return 0


def crop_constants(NM, base, ratios, rotation, exponent=0.8, dist=5.0, retail=10.0, country="XXX", increased_area=1, add_gh=False, gh_delay=2, gh_mult=0.19e9 / 1.43e9,
                   area_fraction=0.01, add_outdoor=True, harvest_duration=8, rotation_delay=2, years_area=3):
    c = dict(NMONTHS=NM, STARTING_MONTH_NUM=START_MONTH, BASELINE_CROP_KCALS=base, BASELINE_CROP_FAT=1.0, BASELINE_CROP_PROTEIN=1.0,
             ADD_OUTDOOR_GROWING=add_outdoor, WASTE_DISTRIBUTION={"CROPS": dist}, WASTE_RETAIL=retail, OG_USE_BETTER_ROTATION=rotation,
             ROTATION_IMPROVEMENTS=dict(POWER_LAW_IMPROVEMENT=exponent, FAT_RATIO=1.647, PROTEIN_RATIO=1.108), SEASONALITY=list(SEASON), COUNTRY_CODE=country,
             RATIO_INCREASED_CROP_AREA=increased_area, NUMBER_YEARS_TAKES_TO_REACH_INCREASED_AREA=years_area, INITIAL_HARVEST_DURATION_IN_MONTHS=harvest_duration,
             DELAY=dict(ROTATION_CHANGE_IN_MONTHS=rotation_delay, GREENHOUSE_MONTHS=gh_delay), ADD_GREENHOUSES=add_gh, GREENHOUSE_AREA_MULTIPLIER=gh_mult, GREENHOUSE_GAIN_PCT=44,
             INITIAL_GLOBAL_CROP_AREA=1.43e9, INITIAL_CROP_AREA_FRACTION=area_fraction)
    for i, r in enumerate(ratios, 1):
        c["RATIO_CROPS_YEAR%d" % i] = r
    return c


def area_expansion(m, increased_area, harvest_duration, years_area):
    """documented ramp of cultivated area: 1 until the first harvest is over, then linear to the maximum after `years_area` years, then flat."""
    if increased_area <= 1:
        return 1
    total = years_area * 12
    if m < harvest_duration:
        return 1
    if m >= total:
        return increased_area
    return 1 + (m - harvest_duration) * (increased_area - 1) / (total - harvest_duration)


def greenhouse_fraction(m, delay, mult, n_months_grown):
    """share of cropland under greenhouses: 0 for delay+5 months, then a 37-point linear ramp to the configured share, then flat."""
    start = delay + 5
    if m < start:
        return 0
    k = m - start
    if k <= 36:
        return mult * k / 36
    return mult


def run_outdoor(oc, gh, c, with_greenhouses=True):
    o = oc.OutdoorCrops(c)
    o.calculate_rotation_ratios(c)
    if c["ADD_OUTDOOR_GROWING"] or c["ADD_GREENHOUSES"]:
        o.calculate_monthly_production(c)
    g = gh.Greenhouses(c)
    area = g.get_greenhouse_area(c, o)
    o.set_crop_production_minus_greenhouse_area(c, g.greenhouse_fraction_area)
    return o, g, area
