"""C10 Unit conversions are mutually consistent and anchored to the population's needs.

UnitConversions.set_nutrition_requirements is executed with symbolic population / kcal / fat / protein requirements (> 0);
get_kcal/fat/protein_multipliers, get_conversion and Food.in_units* then run on those symbols, giving every conversion factor
as a rational function of the four symbols.  z3 (QF_NRA) decides every identity for all positive settings.
"""
import json
import itertools
import numpy as np
import z3

import vlib
from symx.engine import Engine, SymReal, SymBool, zsum, close, sb, implies, conj
from symx.npproxy import patched, STUBS

PID = "C10"
MOD = "harness.C10_units"
REL = 1e-9   # identities hold to an ulp only: the tables mix symbolic terms with concrete float sub-computations (DESIGN C10)


def _mods():
    import src.food_system.food as fd
    import src.food_system.unit_conversions as uc
    return fd, uc


class _Conv:
    """install symbolic nutrition settings into the process-wide Food.conversions for the duration of a path."""

    def __init__(self, E, fd, include_fat=True, include_protein=True, earlier=None):
        self.fd = fd
        self.E = E
        self.inc = (include_fat, include_protein)
        self.earlier = earlier      # flag settings an EARLIER call left behind; its numbers are arbitrary (symbolic)

    def __enter__(self):
        E, fd = self.E, self.fd
        self.saved = fd.Food.conversions.__dict__.copy()
        self.kd, self.fat, self.pro, self.pop = E.real("kcals_daily"), E.real("fat_daily"), E.real("protein_daily"), E.real("population")
        for v in (self.kd, self.fat, self.pro, self.pop):
            E.assume(v > 0)
        E.assume(self.pop <= 1e11)
        E.assume(self.kd <= 1e5)
        E.assume(self.fat <= 1e4)
        E.assume(self.pro <= 1e4)
        if self.earlier is not None:
            # the settings object is process-wide: whatever an earlier call stored is still there when this call starts
            c = fd.Food.conversions
            for a in STALE_ATTRS:
                setattr(c, a, E.real("earlier_" + a))
            c.include_fat, c.include_protein = self.earlier
            c.exclude_fat, c.exclude_protein = (not self.earlier[0]), (not self.earlier[1])
            c.NUTRITION_PROPERTIES_ASSIGNED = True
        fd.Food.conversions.set_nutrition_requirements(self.kd, self.fat, self.pro, self.inc[0], self.inc[1], self.pop)
        return self

    def __exit__(self, *a):
        self.fd.Food.conversions.__dict__.clear()
        self.fd.Food.conversions.__dict__.update(self.saved)
        return False


STALE_ATTRS = ["days_in_month", "kcals_daily", "fat_daily", "protein_daily", "kcals_monthly", "fat_monthly", "protein_monthly", "billion_kcals_needed", "thou_tons_fat_needed", "thou_tons_protein_needed", "population"]


def _rel_eq(a, b):
    """a == b up to REL, both known positive"""
    return conj([a <= b * (1 + REL), b <= a * (1 + REL)])


def _tables(fd):
    f = fd.Food(1.0, 1.0, 1.0)
    return [f.get_kcal_multipliers(), f.get_fat_multipliers(), f.get_protein_multipliers()]


NUTR = ["kcals", "fat", "protein"]
DEFAULT = ["billion kcals", "thousand tons", "thousand tons"]


def worker_tables(case, seed):
    """pairs (round trip) and triples (composition) over the real multiplier tables, through the real get_conversion."""
    fd, uc = _mods()
    E = Engine(seed=seed, query_timeout_ms=20000)
    E.prune_on = ()
    n = case["nutrient"]
    part, nparts = case["part"], case["nparts"]

    def h(E):
        with _Conv(E, fd) as cv, patched(fd, uc, isinstance_=True):
            f = fd.Food(1.0, 1.0, 1.0)
            tabs = _tables(fd)
            names = list(tabs[n].keys())
            E.check("every multiplier is strictly positive", conj([m > 0 for m in tabs[n].values()]))

            def conv(a, b):
                fr = list(DEFAULT)
                to = list(DEFAULT)
                fr[n] = a
                to[n] = b
                return f.get_conversion(fr, to[0], to[1], to[2])[n]
            C = {(a, b): conv(a, b) for a in names for b in names}
            if case["kind"] == "pairs":
                for a in names:
                    E.check("identity conversion a->a == 1", _rel_eq(C[(a, a)], 1))
                    for b in names:
                        E.check("round trip c(a->b) * c(b->a) == 1", _rel_eq(C[(a, b)] * C[(b, a)], 1))
                # variants of one unit share a multiplier
                for a in names:
                    for suf in (" each month", " per month"):
                        if a + suf in tabs[n]:
                            E.check("total / per month / each month variants of a unit share one multiplier", _rel_eq(tabs[n][a], tabs[n][a + suf]))
                bases = [a for a in names if not a.endswith(" each month") and not a.endswith(" per month")]
                E.check("every unit exists in all three forms", all((a + " each month" in tabs[n]) and (a + " per month" in tabs[n]) for a in bases))
            else:
                triples = [t for i, t in enumerate(itertools.product(names, repeat=3)) if i % nparts == part]
                for (a, b, c) in triples:
                    E.check("via intermediate == direct: c(a->b) * c(b->c) == c(a->c)", _rel_eq(C[(a, b)] * C[(b, c)], C[(a, c)]))
    E.explore(h)
    s = E.summary()
    return s


def replay_tables(case, cx):
    fd, uc = _mods()
    case = case if isinstance(case, dict) else json.loads(case)
    m = vlib.model_floats(cx["model"])
    saved = fd.Food.conversions.__dict__.copy()
    bad = []
    try:
        fd.Food.conversions.set_nutrition_requirements(m["kcals_daily"], m["fat_daily"], m["protein_daily"], True, True, m["population"])
        f = fd.Food(1.0, 1.0, 1.0)
        n = case["nutrient"]
        names = list(_tables(fd)[n].keys())

        def conv(a, b):
            fr, to = list(DEFAULT), list(DEFAULT)
            fr[n], to[n] = a, b
            return f.get_conversion(fr, to[0], to[1], to[2])[n]
        for a in names:
            for b in names:
                if abs(conv(a, b) * conv(b, a) - 1) > 1e-6:
                    bad.append("round trip %s <-> %s = %r" % (a, b, conv(a, b) * conv(b, a)))
                for c in (names if case["kind"] != "pairs" else []):
                    if abs(conv(a, b) * conv(b, c) / conv(a, c) - 1) > 1e-6:
                        bad.append("composition %s -> %s -> %s" % (a, b, c))
            for suf in (" each month", " per month"):
                t = _tables(fd)[n]
                if a + suf in t and abs(t[a] / t[a + suf] - 1) > 1e-6:
                    bad.append("variants of %s differ" % a)
    finally:
        fd.Food.conversions.__dict__.clear()
        fd.Food.conversions.__dict__.update(saved)
    return dict(reproduced=bool(bad), what="unit tables (%s): %s" % (NUTR[case["nutrient"]], "; ".join(bad[:3])), inputs=m, observed=bad[:10], key="tables/%s/%s" % (NUTR[case["nutrient"]], case["kind"]))


def _forms(fd, E, form, vals=None):
    """a Food in default units in one of the three forms"""
    if form == "total":
        v = vals or [E.real("x_k"), E.real("x_f"), E.real("x_p")]
        return fd.Food(v[0], v[1], v[2], "billion kcals", "thousand tons", "thousand tons"), v
    if form == "per month":
        v = vals or [E.real("x_k"), E.real("x_f"), E.real("x_p")]
        return fd.Food(v[0], v[1], v[2], "billion kcals per month", "thousand tons per month", "thousand tons per month"), v
    if form in ("month selected from a series", "series element"):
        # the single-month form as the model produces it: one month taken out of a series (get_month / indexing), not built by the constructor
        v = vals or [E.real("x_k"), E.real("x_f"), E.real("x_p")]
        ser = fd.Food(np.array([v[0], v[0] + 1], dtype=object), np.array([v[1], v[1] + 1], dtype=object), np.array([v[2], v[2] + 1], dtype=object),
                      "billion kcals each month", "thousand tons each month", "thousand tons each month")
        return (ser.get_month(0) if form == "month selected from a series" else ser[0]), v
    v = vals or [E.reals("x_k", 2), E.reals("x_f", 2), E.reals("x_p", 2)]
    return fd.Food(np.array(v[0], dtype=object), np.array(v[1], dtype=object), np.array(v[2], dtype=object),
                   "billion kcals each month", "thousand tons each month", "thousand tons each month"), v


SUFFIX = {"total": "", "per month": " per month", "each month": " each month", "month selected from a series": " per month", "series element": " per month"}


def _bases(tab):
    return [a for a in tab if not a.endswith(" each month") and not a.endswith(" per month")]


def worker_food(case, seed):
    """Food.in_units: value = factor x value, form suffix and scalar/series shape preserved, via-intermediate == direct."""
    fd, uc = _mods()
    E = Engine(seed=seed, query_timeout_ms=20000)
    E.prune_on = ()
    form = case["form"]

    def h(E):
        with _Conv(E, fd) as cv, patched(fd, uc, isinstance_=True):
            tabs = _tables(fd)
            B = [_bases(t) for t in tabs]
            L = max(len(b) for b in B)
            targets = [[B[0][i % len(B[0])], B[1][i % len(B[1])], B[2][(i + 1) % len(B[2])]] for i in range(L)]
            food, v = _forms(fd, E, form)
            flat = [x for part in v for x in (part if isinstance(part, list) else [part])]
            for x in flat:
                E.assume(x >= 0)
                E.assume(x <= 1e9)
            before = [food.kcals, food.fat, food.protein, list(food.units)]
            for t in targets:
                r = food.in_units(t[0], t[1], t[2])
                suf = SUFFIX[form]
                E.check("result labels = requested unit + the source's form suffix", [r.kcals_units, r.fat_units, r.protein_units] == [t[0] + suf, t[1] + suf, t[2] + suf])
                E.check("combined label list agrees with the three labels", list(r.units) == [r.kcals_units, r.fat_units, r.protein_units])
                E.check("scalar-or-series shape preserved", r.is_list_monthly() == (form == "each month") and (not r.is_list_monthly() or len(r.kcals) == 2))
                for i, nut in enumerate(NUTR):
                    fac = tabs[i][t[i] + suf]
                    got = getattr(r, nut)
                    src = v[i]
                    if form == "each month":
                        for j in range(2):
                            E.check("converted value = value x table factor", close(got[j], src[j] * fac, REL, 0))
                    else:
                        E.check("converted value = value x table factor", close(got, src * fac, REL, 0))
                # back again and via an intermediate
                back = r.in_units(*DEFAULT)
                for i, nut in enumerate(NUTR):
                    g, s0 = getattr(back, nut), v[i]
                    if form == "each month":
                        E.check("convert and convert back returns the original", conj([close(g[j], s0[j], REL, 0) for j in range(2)]))
                    else:
                        E.check("convert and convert back returns the original", close(g, s0, REL, 0))
                E.check("round trip restores the labels", list(back.units) == before[3])
                t2 = targets[(targets.index(t) + 2) % len(targets)]
                via = r.in_units(*t2)
                direct = food.in_units(*t2)
                for nut in NUTR:
                    a, b = getattr(via, nut), getattr(direct, nut)
                    if form == "each month":
                        E.check("via intermediate unit == direct", conj([close(a[j], b[j], REL, 0) for j in range(2)]))
                    else:
                        E.check("via intermediate unit == direct", close(a, b, REL, 0))
                E.check("via intermediate: same labels as direct", list(via.units) == list(direct.units))
            E.check("operand not modified by conversion", (food.kcals is before[0]) and (food.fat is before[1]) and (food.protein is before[2]) and list(food.units) == before[3])
    E.explore(h)
    return E.summary()


def worker_anchor(case, seed):
    fd, uc = _mods()
    E = Engine(seed=seed, query_timeout_ms=20000)
    E.prune_on = ()
    form = case["form"]

    def h(E):
        with _Conv(E, fd, case["inc"][0], case["inc"][1], earlier=case.get("earlier")) as cv, patched(fd, uc, isinstance_=True):
            kd, fa, pr, pop = cv.kd, cv.fat, cv.pro, cv.pop
            # a population's exact monthly requirement, written from first principles (30-day month; 1 thousand tons = 1e9 g)
            need = [kd * 30 * pop / 1e9, fa * 30 * pop / 1e9, pr * 30 * pop / 1e9]
            if form == "each month":
                need = [[x, x] for x in need]
            food, _ = _forms(fd, E, form, vals=need)
            first = (lambda x: x[0]) if form == "each month" else (lambda x: x)
            pf = food.in_units_percent_fed()
            for nut in NUTR:
                E.check("monthly requirement -> 100 percent fed", _rel_eq(first(getattr(pf, nut)), 100))
            ke = food.in_units_kcals_equivalent()
            for nut in NUTR:
                E.check("monthly requirement -> daily requirement per person (kcal-equivalent)", _rel_eq(first(getattr(ke, nut)), kd))
            gg = food.in_units_kcals_grams_grams_per_person()
            E.check("monthly requirement -> kcals / grams per person per day", conj([_rel_eq(first(gg.kcals), kd), _rel_eq(first(gg.fat), fa), _rel_eq(first(gg.protein), pr)]))
            bf = food.in_units_billions_fed()
            for nut in NUTR:
                E.check("monthly requirement -> population in billions", _rel_eq(first(getattr(bf, nut)), pop / 1e9))
            bk = pf.in_units_bil_kcals_thou_tons_thou_tons_per_month()
            E.check("percent fed -> billion kcals restores the requirement", conj([_rel_eq(first(bk.kcals), first(need[0]) if form == "each month" else need[0])]))
            suf = SUFFIX[form]
            E.check("helper labels carry the form suffix", [pf.kcals_units, ke.fat_units, gg.protein_units, bf.kcals_units, bk.kcals_units] ==
                    ["percent people fed" + suf, "effective kcals per person per day" + suf, "grams per person per day" + suf, "billion people fed" + suf, "billion kcals" + suf])
            c = fd.Food.conversions
            E.check("settings stored as given", conj([c.kcals_daily == kd, c.fat_daily == fa, c.protein_daily == pr, c.population == pop,
                                                      sb(c.include_fat == case["inc"][0]), sb(c.include_protein == case["inc"][1]),
                                                      sb(c.exclude_fat == (not case["inc"][0])), sb(c.exclude_protein == (not case["inc"][1]))]))
    E.explore(h)
    return E.summary()


def replay_food(case, cx):
    """concrete re-run of the same obligations with floats."""
    fd, uc = _mods()
    case = case if isinstance(case, dict) else json.loads(case)
    m = vlib.model_floats(cx["model"])
    saved = fd.Food.conversions.__dict__.copy()
    bad = []
    try:
        inc = case.get("inc", [True, True])
        if case.get("earlier") is not None:
            c = fd.Food.conversions
            for a in STALE_ATTRS:
                setattr(c, a, m.get("earlier_" + a, 1.0))
            c.include_fat, c.include_protein = case["earlier"]
            c.exclude_fat, c.exclude_protein = (not case["earlier"][0]), (not case["earlier"][1])
            c.NUTRITION_PROPERTIES_ASSIGNED = True
        fd.Food.conversions.set_nutrition_requirements(m["kcals_daily"], m["fat_daily"], m["protein_daily"], inc[0], inc[1], m["population"])
        kd, fa, pr, pop = m["kcals_daily"], m["fat_daily"], m["protein_daily"], m["population"]
        form = case["form"]
        def _sel(vals):
            ser = fd.Food(np.array([vals[0], vals[0] + 1]), np.array([vals[1], vals[1] + 1]), np.array([vals[2], vals[2] + 1]), "billion kcals each month", "thousand tons each month", "thousand tons each month")
            return ser.get_month(0) if form == "month selected from a series" else ser[0]
        mk = lambda vals: _sel(vals) if form in ("month selected from a series", "series element") else (fd.Food(vals[0], vals[1], vals[2], "billion kcals" + SUFFIX[form], "thousand tons" + SUFFIX[form], "thousand tons" + SUFFIX[form]) if form != "each month"
                           else fd.Food(np.array([vals[0]] * 2), np.array([vals[1]] * 2), np.array([vals[2]] * 2), "billion kcals each month", "thousand tons each month", "thousand tons each month"))
        first = (lambda x: float(x[0])) if form == "each month" else float
        need = [kd * 30 * pop / 1e9, fa * 30 * pop / 1e9, pr * 30 * pop / 1e9]
        food = mk(need)
        pf = food.in_units_percent_fed()
        ke = food.in_units_kcals_equivalent()
        gg = food.in_units_kcals_grams_grams_per_person()
        bf = food.in_units_billions_fed()
        for nut in NUTR:
            if abs(first(getattr(pf, nut)) - 100) > 1e-6:
                bad.append("requirement -> %r percent fed (%s)" % (first(getattr(pf, nut)), nut))
            if abs(first(getattr(ke, nut)) / kd - 1) > 1e-6:
                bad.append("requirement -> %r kcal/person/day (%s), expected %r" % (first(getattr(ke, nut)), nut, kd))
            if abs(first(getattr(bf, nut)) / (pop / 1e9) - 1) > 1e-6:
                bad.append("requirement -> %r billion fed (%s), expected %r" % (first(getattr(bf, nut)), nut, pop / 1e9))
        if abs(first(gg.fat) / fa - 1) > 1e-6 or abs(first(gg.protein) / pr - 1) > 1e-6:
            bad.append("requirement -> grams per person per day wrong")
        # generic values
        vals = [m.get("x_k", m.get("x_k_0", 1.0)), m.get("x_f", m.get("x_f_0", 1.0)), m.get("x_p", m.get("x_p_0", 1.0))]
        food = mk(vals)
        tabs = _tables(fd)
        B = [_bases(t) for t in tabs]
        L = max(len(b) for b in B)
        targets = [[B[0][i % len(B[0])], B[1][i % len(B[1])], B[2][(i + 1) % len(B[2])]] for i in range(L)]
        for t in targets:
            r = food.in_units(*t)
            suf = SUFFIX[form]
            if [r.kcals_units, r.fat_units, r.protein_units] != [t[0] + suf, t[1] + suf, t[2] + suf] or list(r.units) != [r.kcals_units, r.fat_units, r.protein_units]:
                bad.append("labels after in_units(%s): %s" % (t, r.units))
            if r.is_list_monthly() != (form == "each month"):
                bad.append("shape changed")
            back = r.in_units(*DEFAULT)
            for i, nut in enumerate(NUTR):
                if abs(first(getattr(r, nut)) - vals[i] * tabs[i][t[i] + suf]) > 1e-6 * (1 + abs(vals[i] * tabs[i][t[i] + suf])):
                    bad.append("value after in_units(%s) != value x factor" % t[i])
                if abs(first(getattr(back, nut)) - vals[i]) > 1e-6 * (1 + abs(vals[i])):
                    bad.append("round trip through %s changes the value" % t[i])
            t2 = targets[(targets.index(t) + 2) % len(targets)]
            via, direct = r.in_units(*t2), food.in_units(*t2)
            for nut in NUTR:
                if abs(first(getattr(via, nut)) - first(getattr(direct, nut))) > 1e-6 * (1 + abs(first(getattr(direct, nut)))):
                    bad.append("via %s != direct to %s" % (t, t2))
    except Exception as e:   # noqa
        bad.append("raised %s: %s" % (type(e).__name__, e))
    finally:
        fd.Food.conversions.__dict__.clear()
        fd.Food.conversions.__dict__.update(saved)
    return dict(reproduced=bool(bad), what="Food.in_units (%s): %s" % (case["form"], "; ".join(bad[:3])), inputs=m, observed=bad[:10], key="food/" + (bad[0].split(" (")[0][:40] if bad else ""))


def validate_encoding(rep):
    """the symbolic tables evaluated at a concrete setting equal the real float tables (test values of tests/test_unit_conversion.py)."""
    fd, uc = _mods()
    saved = fd.Food.conversions.__dict__.copy()
    n = 0
    try:
        for (kd, fa, pr, pop) in [(2100, 47, 51, 7.8e9), (2000.0, 60.0, 55.0, 4.5e7), (1700.5, 30.25, 40.125, 123456.0)]:
            fd.Food.conversions.set_nutrition_requirements(kd, fa, pr, True, True, pop)
            ref = _tables(fd)
            E = Engine()
            out = []

            def h(E):
                vals = [SymReal(z3.RealVal(repr(float(x)))) for x in (kd, fa, pr, pop)]
                with patched(fd, uc, isinstance_=True):
                    fd.Food.conversions.set_nutrition_requirements(vals[0], vals[1], vals[2], True, True, vals[3])
                    out.append([{k: float(v) if isinstance(v, SymReal) else float(v) for k, v in t.items()} for t in _tables(fd)])
            E.explore(h)
            if E.errors or not out:
                rep.fail_inconclusive("encoding validation error %s" % E.errors[:1])
                return
            for t_ref, t_got in zip(ref, out[0]):
                for k in t_ref:
                    if abs(t_got[k] / t_ref[k] - 1) > 1e-12:
                        rep.fail_inconclusive("encoding validation: %s symbolic %r vs real %r" % (k, t_got[k], t_ref[k]))
                        return
                    n += 1
    finally:
        fd.Food.conversions.__dict__.clear()
        fd.Food.conversions.__dict__.update(saved)
    rep.note_validation(n)


def main(tier, seed, only=None):
    rep = vlib.Report(PID, tier, seed)
    thorough = tier == "thorough"
    try:
        validate_encoding(rep)
    except Exception as e:   # noqa  the real code raised on a concrete validation sample: the symbolic groups still run and decide; without a violation the run is inconclusive
        rep.fail_inconclusive("concrete validation of the encoding could not run: %s: %s" % (type(e).__name__, str(e)[:200]))
    nparts = 10
    tab_cases = [dict(nutrient=n, kind="pairs", part=0, nparts=1) for n in range(3)] + \
                [dict(nutrient=n, kind="triples", part=p, nparts=nparts) for n in range(3) for p in range(nparts)]
    forms = ["total", "per month", "each month"]
    forms_food = forms + ["month selected from a series", "series element"]
    groups = [
        dict(name="tables_pairs_and_triples", fn="worker_tables", cases=tab_cases, replay=replay_tables,
             functions=["UnitConversions.set_nutrition_requirements", "get_kcal_multipliers", "get_fat_multipliers", "get_protein_multipliers",
                        "get_unit_multipliers_from_billion_kcals_thou_tons_thou_tons", "get_conversion"],
             bounds="ALL pairs and ALL triples of the unit names returned by the real tables (15 kcal, 18 fat, 18 protein names at the pinned commit; read at run time)",
             symbolic="population, kcals_daily, fat_daily, protein_daily", assumptions=["all four settings > 0 (population <= 1e11, kcal <= 1e5, fat/protein <= 1e4)",
                                                                                        "identities asserted to relative 1e-9"],
             stubs=["food.isinstance accepts SymReal as float"], outside=["floating point error of products beyond 1e-9 relative", "zero requirements (division by zero in the tables)"]),
        dict(name="food_in_units", fn="worker_food", cases=[dict(form=f) for f in forms_food], replay=replay_food,
             functions=["Food.in_units", "UnitConversions.get_conversion", "Food.__init__"],
             bounds="5 forms (total, per month, each month with 2 months, one month taken out of a series by get_month and by indexing) x 6 target triples covering every base unit name in every nutrient position; round trip and one intermediate hop each",
             symbolic="the four settings and the quantity's numbers (>= 0)", assumptions=["settings > 0"], stubs=STUBS[:3] + ["food.isinstance accepts SymReal as float"], outside=["series longer than 2 months (conversion is elementwise)"]),
        dict(name="anchors", fn="worker_anchor", cases=[dict(form=f, inc=i) for f in forms for i in ([[True, True], [False, False]] + ([[True, False], [False, True]] if thorough else []))] +
             [dict(form=f, inc=i, earlier=e) for f in (forms if thorough else ["total"]) for i in ([True, True], [False, False]) for e in ([True, True], [False, False], [True, False])], replay=replay_food,
             functions=["Food.in_units_percent_fed", "in_units_kcals_equivalent", "in_units_kcals_grams_grams_per_person", "in_units_billions_fed", "in_units_bil_kcals_thou_tons_thou_tons_per_month"],
             bounds="3 forms x include-fat/protein settings; and the same after an EARLIER call left arbitrary numbers and any flag setting in the process-wide settings object", symbolic="the four settings; the 11 numbers an earlier call stored", assumptions=["settings > 0", "requirement written from first principles: daily x 30 x population / 1e9"],
             stubs=["food.isinstance accepts SymReal as float"], outside=[]),
    ]
    vlib.run_groups(rep, MOD, groups, seed, only)
    return rep.finish()


def replay_file(path):
    rec = json.load(open(path))
    print(json.dumps(rec, indent=1)[:3000])
    return 0
