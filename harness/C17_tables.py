"""C17 Shipped input tables ... (the clauses a solver can decide; the reproduction of the processed tables by the 21 pandas import scripts is NOT claimed).

(a) SYMX: ImportUtilities.weighted_average_percentages / average_percentages on symbolic percentage and weight vectors: impossible values are ignored, the result
    lies within the range of the valid inputs, the sentinel is returned exactly when no valid entry carries weight.
(b) SYMX: the runtime row check ScenarioRunnerNoTrade.verify_country_data on a symbolic row: a row it accepts satisfies the documented validity predicates and is
    handed on unchanged (up to the documented clamping of a -1-epsilon reduction).
(c) the shipped combined table satisfies those predicates - a complete concrete pass over its 164 rows (finite data, not a solver statement).
"""
import contextlib
import io
import json
import os
import numpy as np
import z3

import vlib
from symx.engine import Engine, SymReal, SymBool, zsum, close, sb, implies, conj
from symx.npproxy import patched, STUBS

PID = "C17"
MOD = "harness.C17_tables"
SENTINEL = 9.37e36
MONTHS = ["jan", "feb", "mar", "apr", "may", "jun", "jul", "aug", "sep", "oct", "nov", "dec"]


def _iu():
    import src.utilities.import_utilities as iu
    return iu


def worker_average(case, seed):
    iu = _iu()
    n = case["n"]
    E = Engine(seed=seed, max_paths=5000, query_timeout_ms=30000)
    E.prune_on = ()

    def h(E):
        ps = E.reals("percent", n)
        for p in ps:
            E.assume(p >= -1e9)
            E.assume(p <= 1e12)
        if case["kind"] == "weighted":
            ws = E.reals("weight", n)
            for w in ws:
                E.assume(w >= 0)
                E.assume(w <= 1)
            E.assume(zsum(ws) == 1)
            r = iu.ImportUtilities.weighted_average_percentages(list(ps), list(ws))
        else:
            ws = [1.0 / n] * n
            r = iu.ImportUtilities.average_percentages(np.array(ps, dtype=object))
        valid = [conj([p <= 1e5, p >= -100]) for p in ps]
        carries = [conj([valid[i], sb(ws[i] > 0)]) for i in range(n)]
        any_valid = SymBool(z3.Or([c.b for c in carries]))
        is_sentinel = sb(r == SENTINEL) if isinstance(r, SymReal) else sb(r == SENTINEL)
        E.check("sentinel 9.37e36 exactly when no valid entry carries weight", SymBool(is_sentinel.b == z3.Not(any_valid.b)))
        if not (isinstance(r, float) and r == SENTINEL):
            for i in range(n):
                pass
            lo_ok = SymBool(z3.Or([z3.And(carries[i].b, (ps[i] <= r + 1e-9).b if isinstance(r, SymReal) else (ps[i] <= r).b) for i in range(n)]))
            hi_ok = SymBool(z3.Or([z3.And(carries[i].b, (ps[i] >= r - 1e-9).b if isinstance(r, SymReal) else (ps[i] >= r).b) for i in range(n)]))
            E.check("result >= the smallest valid input that carries weight", implies(any_valid, lo_ok))
            E.check("result <= the largest valid input that carries weight", implies(any_valid, hi_ok))
            # impossible entries do not influence the result: run again with every impossible value replaced
            ps2 = []
            for i, p in enumerate(ps):
                q = E.real("other_%d" % i)
                E.assume(SymBool(z3.Or(q.z > 1e5, q.z < -100)))
                ps2.append(q if not bool(valid[i]) else p)
            if case["kind"] == "weighted":
                r2 = iu.ImportUtilities.weighted_average_percentages(list(ps2), list(ws))
            else:
                r2 = iu.ImportUtilities.average_percentages(np.array(ps2, dtype=object))
            E.check("impossible values do not influence the result", r2 == r)
    E.explore(h)
    return E.summary()


def replay_average(case, cx):
    iu = _iu()
    case = case if isinstance(case, dict) else json.loads(case)
    m = vlib.model_floats(cx["model"])
    n = case["n"]
    ps = [m["percent_%d" % i] for i in range(n)]
    ws = [m.get("weight_%d" % i, 1.0 / n) for i in range(n)]
    try:
        r = iu.ImportUtilities.weighted_average_percentages(ps, ws) if case["kind"] == "weighted" else iu.ImportUtilities.average_percentages(np.array(ps))
    except AssertionError as e:
        return dict(reproduced=False, what="helper's own assertion fires (%s): float rounding of the weights" % e)
    valid = [(-100 <= p <= 1e5) and ws[i] > 0 for i, p in enumerate(ps)]
    bad = []
    if (r == SENTINEL) != (not any(valid)):
        bad.append("sentinel returned %s although valid-with-weight entries %s" % (r == SENTINEL, valid))
    if any(valid) and r != SENTINEL:
        vs = [p for p, v in zip(ps, valid) if v]
        if r < min(vs) - 1e-6 * (1 + abs(min(vs))) or r > max(vs) + 1e-6 * (1 + abs(max(vs))):
            bad.append("result %r outside the range [%r, %r] of the valid inputs" % (r, min(vs), max(vs)))
        ps2 = [p if (-100 <= p <= 1e5) else 7e7 for p in ps]
        r2 = iu.ImportUtilities.weighted_average_percentages(ps2, ws) if case["kind"] == "weighted" else iu.ImportUtilities.average_percentages(np.array(ps2))
        if abs(r2 - r) > 1e-9 * (1 + abs(r)):
            bad.append("an impossible value influences the result (%r vs %r)" % (r, r2))
    return dict(reproduced=bool(bad), what="averaging helper: " + "; ".join(bad), inputs=dict(percentages=ps, weights=ws), observed=r, key="average/" + (bad[0].split(" ")[0] if bad else ""))


# ---------------------------------------------------------------------------------------- verify_country_data on a symbolic row
FRACTIONS = ["distribution_loss_crops", "distribution_loss_sugar", "distribution_loss_meat", "distribution_loss_dairy", "distribution_loss_seafood", "retail_waste_baseline",
             "retail_waste_price_double", "retail_waste_price_triple"]
NONNEG = ["grasses_baseline", "dairy", "chicken", "pork", "beef", "small_animals", "medium_animals", "large_animals", "dairy_cows", "biofuel_kcals", "biofuel_protein", "biofuel_fat", "feed_kcals",
          "feed_protein", "feed_fat", "crop_kcals", "crop_protein", "crop_fat", "wood_pulp_tonnes", "crop_area_1000ha", "milk_yield_kg_per_milk_bearing_animal_per_year", "kg_meat_per_pig", "kg_meat_per_chicken"]


_REAL = {}


def _real_row():
    if "row" not in _REAL:
        import pandas as pd
        t = pd.read_csv(os.path.join(vlib.REPO, "data/no_food_trade/computer_readable_combined.csv"))
        _REAL["row"] = t[t["iso3"] == "ARG"].iloc[0]
    return _REAL["row"]


class SymRow(dict):
    """a country row: the cells named in `free` are unconstrained symbols, every other cell has the value of the shipped Argentina row"""

    def __init__(self, E, free):
        dict.__init__(self)
        self.E = E
        self.free = free
        self.initial = {}
        self.real = _real_row()
        self["country"] = "Xland"
        self["iso3"] = "XXX"

    def __missing__(self, k):
        if k in self.free:
            v = self.E.real("cell_" + k)
            self.initial[k] = v
        else:
            v = float(self.real[k])
        dict.__setitem__(self, k, v)
        return v


def worker_rowcheck(case, seed):
    import src.scenarios.run_model_no_trade as rm
    E = Engine(seed=seed, max_paths=20000, query_timeout_ms=30000)

    def h(E):
        row = SymRow(E, set(case["free"]))
        with patched(rm), contextlib.redirect_stdout(io.StringIO()):
            rm.ScenarioRunnerNoTrade().verify_country_data(row)
        # the row was accepted: the documented validity predicates must hold for it
        for mth in MONTHS:
            E.check("accepted row: every month's stock >= 0", row["stocks_kcals_" + mth] >= 0)
        for i in range(1, 11):
            E.check("accepted row: crop reductions not below -100 %", row["crop_reduction_year%d" % i] >= -1)
            E.check("accepted row: grass reductions not below -100 %", row["grasses_reduction_year%d" % i] >= -1)
        for k in FRACTIONS:
            E.check("accepted row: fractions within [0, 1)", conj([row[k] >= 0, row[k] < 1]))
        for k in NONNEG + ["population"]:
            E.check("accepted row: quantities non-negative", row[k] >= 0)
        s = zsum([row["seasonality_m%d" % i] for i in range(1, 13)])
        E.check("accepted row: seasonality shares sum to one", conj([s <= 1 + 1e-4, s >= 1 - 1e-4]))
        # the check hands the row on unchanged, except for clamping a value a rounding error below its bound
        for k in list(dict.keys(row)):
            if k in ("country", "iso3"):
                continue
            v0 = row.initial.get(k, float(row.real[k]))
            v1 = row[k]
            E.check("the row check does not alter the data (beyond clamping a 1e-8 rounding error)", conj([sb(v1 - v0 <= 1e-8), sb(v0 - v1 <= 1e-8)]), info=k)
    E.explore(h)
    return E.summary()


def replay_rowcheck(case, cx):
    import pandas as pd
    import src.scenarios.run_model_no_trade as rm
    m = vlib.model_floats(cx["model"])
    table = pd.read_csv(os.path.join(vlib.REPO, "data/no_food_trade/computer_readable_combined.csv"))
    row = table[table["iso3"] == "ARG"].iloc[0].copy()
    for k, v in m.items():
        if k.startswith("cell_") and k[5:] in row.index:
            row[k[5:]] = v
    before = row.copy()
    try:
        with contextlib.redirect_stdout(io.StringIO()):
            rm.ScenarioRunnerNoTrade().verify_country_data(row)
    except AssertionError as e:
        return dict(reproduced=False, what="row rejected by the real check: %s" % str(e)[:80])
    bad = []
    for mth in MONTHS:
        if row["stocks_kcals_" + mth] < 0:
            bad.append("accepted a row with negative stock in %s (%r)" % (mth, row["stocks_kcals_" + mth]))
    for k in before.index:
        if isinstance(before[k], (int, float, np.floating)) and abs(row[k] - before[k]) > 1e-7:
            bad.append("row check changed %s from %r to %r" % (k, before[k], row[k]))
    for k in FRACTIONS:
        if not (0 <= row[k] < 1):
            bad.append("accepted fraction %s=%r" % (k, row[k]))
    return dict(reproduced=bool(bad), what="verify_country_data: " + "; ".join(bad[:3]), inputs={k: v for k, v in m.items() if "stocks" in k or "reduction" in k}, observed=bad[:5],
                key="rowcheck/" + ("negative stock accepted" if any("negative stock" in b for b in bad) else ("row altered" if any("changed" in b for b in bad) else (bad[0][:30] if bad else ""))))


def worker_table(case, seed):
    """complete concrete pass over the shipped combined table"""
    import pandas as pd
    E = Engine(seed=seed)

    def h(E):
        t = pd.read_csv(os.path.join(vlib.REPO, "data/no_food_trade/computer_readable_combined.csv"))
        E.check("one row per country, no duplicates", t["iso3"].is_unique and t["country"].is_unique and len(t) >= 150, info=str(len(t)))
        E.check("no missing values", not t.isnull().values.any(), info=str(t.columns[t.isnull().any()].tolist()[:5]))
        seas = t[["seasonality_m%d" % i for i in range(1, 13)]].sum(axis=1)
        E.check("seasonality shares sum to one", bool(((seas - 1).abs() < 1e-4).all()), info=str(t["iso3"][(seas - 1).abs() >= 1e-4].tolist()[:5]))
        for k in FRACTIONS:
            E.check("fractions within [0, 1)", bool(((t[k] >= 0) & (t[k] < 1)).all()), info=k)
        for i in range(1, 11):
            E.check("reductions not below -100 %", bool((t["crop_reduction_year%d" % i] >= -1 - 1e-8).all() and (t["grasses_reduction_year%d" % i] >= -1 - 1e-8).all()), info=str(i))
        for k in NONNEG + ["population"] + ["stocks_kcals_" + mth for mth in MONTHS]:
            E.check("quantities non-negative", bool((t[k] >= -1e-8).all()), info=k)
    E.explore(h)
    return E.summary()


def replay_table(case, cx):
    return dict(reproduced=True, what="shipped combined table: %s (%s)" % (cx["obligation"], cx.get("info")), key="table/" + cx["obligation"][:40])


def main(tier, seed, only=None):
    rep = vlib.Report(PID, tier, seed)
    thorough = tier == "thorough"
    ns = [1, 2, 3] + ([4] if thorough else [])
    avg = [dict(kind=k, n=n) for k in ("weighted", "even") for n in ns]
    def chunks(lst, k):
        return [lst[i:i + k] for i in range(0, len(lst), k)]
    cells = (["stocks_kcals_" + m for m in MONTHS] + ["crop_reduction_year%d" % i for i in range(1, 11)] + ["grasses_reduction_year%d" % i for i in range(1, 11)] + FRACTIONS + NONNEG + ["population"]
             + ["seasonality_m%d" % i for i in range(1, 13)])
    rows = [dict(free=c) for c in chunks(cells, 4)]
    rows += [dict(free=["stocks_kcals_jan", "crop_reduction_year1", "stocks_kcals_dec"]), dict(free=["stocks_kcals_feb", "crop_reduction_year1", "crop_reduction_year2"])]
    groups = [
        dict(name="percentage_averaging_helper", fn="worker_average", cases=avg, replay=replay_average, functions=["ImportUtilities.weighted_average_percentages", "ImportUtilities.average_percentages"],
             bounds="vectors of length %s" % ns, symbolic="every percentage (any real incl. the impossible ranges) and every weight", assumptions=["weights in [0,1] summing to exactly 1"], stubs=STUBS[:1],
             outside=["longer vectors", "float rounding of the weight sum (the helper asserts 0.99999 < sum <= 1.00001)"]),
        dict(name="runtime_row_check_is_strong_enough", fn="worker_rowcheck", cases=rows, replay=replay_rowcheck, functions=["ScenarioRunnerNoTrade.verify_country_data"],
             bounds="the row of a real country with 3-4 cells at a time replaced by unconstrained symbols; all 76 checked cells covered by the cases", symbolic="the free cells of the case",
             assumptions=["cells outside the case's free set carry the shipped Argentina values"], stubs=["np.isclose via NpProxy"], outside=["all cells free at once (2^20 paths)"]),
        dict(name="shipped_combined_table_is_valid", fn="worker_table", cases=[dict()], replay=replay_table, functions=["(data) data/no_food_trade/computer_readable_combined.csv"],
             bounds="all rows and the columns named in the statement; concrete", symbolic="nothing (complete pass over finite data, not a solver statement)", assumptions=[], stubs=[],
             outside=["re-running the 21 import scripts and comparing every processed table: concrete file equality through pandas/openpyxl, no symbolic content - NOT claimed"]),
    ]
    vlib.run_groups(rep, MOD, groups, seed, only)
    return rep.finish()


def replay_file(path):
    rec = json.load(open(path))
    print(json.dumps(rec, indent=1)[:3000])
    return 0
