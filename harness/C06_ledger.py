"""C06 Herd head-count ledger balances every month.

One inductive month step from an arbitrary valid state, executed on the month body of animal_populations.main()
lifted from its AST at run time (so the real order of the step functions is what is checked).  Feeding is replaced
by a nondeterministic stub (animals fed = any value in [0, herd]); C07 decides the feeding itself.
"""
import copy
import io
import json
import contextlib
import numpy as np
import z3

import vlib
from symx.engine import Engine, SymReal, SymBool, zsum, close, sb, implies, conj
from symx.npproxy import patched, STUBS
from harness import herd

PID = "C06"
MOD = "harness.C06_ledger"
STRATEGIES = ["baseline", "reduced", "feed_only_ruminants"]


def _mods():
    import src.food_system.animal_populations as ap
    import src.food_system.food as fd
    return ap, fd


def _stub_ap(ap, fed_of):
    """AnimalPopulation with feed_animals replaced by a nondeterministic stub."""
    class StubAP(ap.AnimalPopulation):
        def feed_animals(animal_list, ruminants, available_feed, available_grass):
            for a in animal_list:
                a.population_fed = fed_of(a)
            return available_feed, available_grass
    return StubAP


def _sym_state(E, a, tag, concrete_pop=None, light=False):
    """havoc the dynamic state a month can start from (representation invariant assumed).
    light: pregnancy state stays at the concrete value of the built herd (fewer forks in multi-species runs)."""
    cur = E.real(tag + "_pop") if concrete_pop is None else concrete_pop
    sl = E.real(tag + "_last_slaughter")
    pt = E.real(tag + "_pregnant_total") if not light else float(a.pregnant_animals_total[-1])
    pb = E.real(tag + "_pregnant_birthing") if not light else float(a.pregnant_animals_birthing_this_month[-1])
    fed = E.real(tag + "_fed")
    base = E.real(tag + "_baseline_slaughter")
    for v in (cur, sl, pt, pb, fed, base):
        if isinstance(v, SymReal):
            E.assume(v >= 0)
            E.assume(v <= 1e12)
    E.assume(fed <= cur)
    a.current_population = cur
    a.population = [cur]
    a.slaughter = [sl]
    a.pregnant_animals_total = [pt]
    a.pregnant_animals_birthing_this_month = [pb]
    a.baseline_slaughter = base
    a.population_starving_pre_slaughter = [0]
    a.other_death_total = [0]
    a.other_death_starving = [0]
    a.other_death_causes_other_than_starving = [0]
    a.births_animals_month = []
    a.transfer_population = []
    a.transfer_births = []
    a.slaughtered_pregnant_animals = [0]
    a.homekill_other_death_this_month = [0]
    a.homekill_healthy_this_month = [0]
    a.homekill_starving_this_month = [0]
    a.total_homekill_this_month = [0]
    if a.animal_function == "milk":
        a.retiring_milk_animals = []
    if not light:
        # a month is never the first one in general: every record list already holds an OLDER entry, arbitrary (symbolic) -- code that reads index 0 or any index other
        # than the latest one picks it up
        def older(name):
            v = E.real("%s_older_%s" % (tag, name))
            E.assume(v >= 0)
            E.assume(v <= 1e12)
            return v
        _pad_history(a, older)
    return dict(cur=cur, sl=sl, pt=pt, pb=pb, fed=fed, base=base)


HISTORY_LISTS = ["population", "slaughter", "pregnant_animals_total", "pregnant_animals_birthing_this_month", "population_starving_pre_slaughter", "other_death_total", "other_death_starving",
                 "other_death_causes_other_than_starving", "births_animals_month", "transfer_population", "transfer_births", "slaughtered_pregnant_animals", "homekill_other_death_this_month",
                 "homekill_healthy_this_month", "homekill_starving_this_month", "total_homekill_this_month", "retiring_milk_animals"]


def _pad_history(a, older):
    for name in HISTORY_LISTS:
        if hasattr(a, name) and isinstance(getattr(a, name), list):
            setattr(a, name, [older(name)] + list(getattr(a, name)))


def _ledger_checks(E, a, st, tag=""):
    start = st["cur"]
    end = a.population[-1]
    births = a.births_animals_month[-1]
    natural = a.other_death_causes_other_than_starving[-1]
    slaughter = a.slaughter[-1]
    starv = a.other_death_starving[-1]
    hk = a.homekill_healthy_this_month[-1] + a.homekill_starving_this_month[-1]
    if a.animal_function == "milk":
        retiring = a.retiring_milk_animals[-1]
        tin = 0
    else:
        retiring = 0
        tin = a.transfer_population[-1]
    bal = start + births + tin - retiring - natural - slaughter - starv - hk
    want = bal if (bal >= 0) else 0
    E.check(tag + "end = max(0, start + births + transfers - retirements - natural deaths - slaughter - starvation deaths - home-kill)", end == want)
    for nm, v in (("births", births), ("transfer in", tin), ("retirements", retiring), ("natural deaths", natural), ("slaughter", slaughter),
                  ("starvation deaths", starv), ("home-kill", hk), ("end head count", end), ("starving count", a.population_starving_pre_slaughter[-1]),
                  ("pregnant total", a.pregnant_animals_total[-1]), ("pregnant birthing", a.pregnant_animals_birthing_this_month[-1])):
        E.check(tag + "flow/state non-negative: " + nm, v >= 0)
    pre = start + births + tin - retiring - natural
    avail = pre if (pre >= 0) else 0
    E.check(tag + "slaughter <= animals available", slaughter <= avail)
    tgt = a.target_population_head
    E.check(tag + "slaughter never takes the herd below its target", implies(pre >= tgt, pre - slaughter >= tgt))
    E.check(tag + "starvation deaths <= starving animals", starv <= a.population_starving_pre_slaughter[-1])
    return slaughter


def _run_step(ap, fd, month, animals, ruminants, co, fed_of):
    step, args, ns = herd.lifted_month_step()
    ns["AnimalPopulation"] = _stub_ap(ap, fed_of)
    feed = fd.Food(np.zeros(month + 1))
    grass = fd.Food(np.zeros(month + 1))
    kw = dict(month=month, all_animals=animals, available_feed=feed, available_grass=grass, country_object=co,
              feed_used=fd.Food(np.zeros(month + 1)), grass_used=fd.Food(np.zeros(month + 1)), ruminants=ruminants)
    missing = [x for x in args if x not in kw]
    if missing:
        raise RuntimeError("lifted month body needs unknown free variables %s: main() was refactored, harness must be updated" % missing)
    with contextlib.redirect_stdout(io.StringIO()):
        return step(**{k: kw[k] for k in args})


def _month_of(a, kind):
    g = int(round(float(a.gestation)))
    return {"zero": 0, "gestation": g, "other": g + 3 if g + 3 != 0 else 5}[kind] if kind != "gestation" or g != 0 else 0


# ----------------------------------------------------------------------------- one species, one month
def worker_step(case, seed):
    ap, fd = _mods()
    animals, ruminants, co0 = herd.build(case["country"], case["strategy"])
    a0 = next(x for x in animals if x.animal_type == case["animal"])
    month = _month_of(a0, case["month"])
    E = Engine(seed=seed, max_paths=4000, query_timeout_ms=30000)

    def h(E):
        a = copy.deepcopy(a0)
        co = copy.deepcopy(co0)
        st = _sym_state(E, a, "a")
        tin = None
        with patched(ap, fd, isinstance_=True):
            out = _run_step(ap, fd, month, [a], [a] if a0 in ruminants else [], co, lambda x: st["fed"])
        E.check("starving = herd - fed", a.population_starving_pre_slaughter[-1] == st["cur"] - st["fed"])
        sl = _ledger_checks(E, a, st)
        cap = a.animal_slaughter_hours * st["base"]
        rem = out["hours_by_size_dict"][a.animal_size]
        E.check("labour hours: used = slaughter x hours per head <= class capacity; remainder >= 0",
                conj([rem >= 0, close(cap - rem, sl * a.animal_slaughter_hours, 1e-12, 1e-12), sl * a.animal_slaughter_hours <= cap * (1 + 1e-12) + 1e-12]))
        E.check("lists advance by exactly one month", [len(a.population), len(a.slaughter), len(a.births_animals_month), len(a.other_death_total)] == [3, 3, 2, 3])
    E.explore(h)
    return E.summary()


def _replay_state(a, m, tag):
    g = lambda k: m[tag + "_" + k]
    a.current_population = g("pop")
    a.population = [g("pop")]
    a.slaughter = [g("last_slaughter")]
    if tag + "_pregnant_total" in m:
        a.pregnant_animals_total = [g("pregnant_total")]
        a.pregnant_animals_birthing_this_month = [g("pregnant_birthing")]
    else:
        a.pregnant_animals_total = [float(a.pregnant_animals_total[-1])]
        a.pregnant_animals_birthing_this_month = [float(a.pregnant_animals_birthing_this_month[-1])]
    a.baseline_slaughter = g("baseline_slaughter")
    a.population_starving_pre_slaughter = [0]
    a.other_death_total = [0]
    a.other_death_starving = [0]
    a.other_death_causes_other_than_starving = [0]
    a.births_animals_month = []
    a.transfer_population = []
    a.transfer_births = []
    a.slaughtered_pregnant_animals = [0]
    for k in ("homekill_other_death_this_month", "homekill_healthy_this_month", "homekill_starving_this_month", "total_homekill_this_month"):
        setattr(a, k, [0])
    if a.animal_function == "milk":
        a.retiring_milk_animals = []
    if any(k.startswith(tag + "_older_") for k in m):
        _pad_history(a, lambda name: m.get("%s_older_%s" % (tag, name), 0.0))
    return dict(cur=g("pop"), fed=g("fed"), base=g("baseline_slaughter"))


def _concrete_ledger(a, st, bad, scale):
    tol = 1e-9 * scale + 1e-9
    start = st["cur"]
    end = a.population[-1]
    births = a.births_animals_month[-1]
    natural = a.other_death_causes_other_than_starving[-1]
    slaughter = a.slaughter[-1]
    starv = a.other_death_starving[-1]
    hk = a.homekill_healthy_this_month[-1] + a.homekill_starving_this_month[-1]
    retiring = a.retiring_milk_animals[-1] if a.animal_function == "milk" else 0
    tin = 0 if a.animal_function == "milk" else a.transfer_population[-1]
    bal = start + births + tin - retiring - natural - slaughter - starv - hk
    if abs(end - max(0.0, bal)) > tol:
        bad.append("%s: ledger does not balance (end %r, expected %r)" % (a.animal_type, end, max(0.0, bal)))
    for nm, v in (("births", births), ("transfer", tin), ("retirements", retiring), ("natural deaths", natural), ("slaughter", slaughter), ("starvation deaths", starv),
                  ("home-kill", hk), ("end", end), ("pregnant", a.pregnant_animals_total[-1]), ("birthing", a.pregnant_animals_birthing_this_month[-1])):
        if v < -tol:
            bad.append("%s: negative %s" % (a.animal_type, nm))
    pre = start + births + tin - retiring - natural
    if slaughter > max(0.0, pre) + tol:
        bad.append("%s: slaughter exceeds animals available" % a.animal_type)
    if pre >= a.target_population_head and pre - slaughter < a.target_population_head - tol:
        bad.append("%s: slaughter took herd below target" % a.animal_type)
    return slaughter


def replay_step(case, cx):
    ap, fd = _mods()
    case = case if isinstance(case, dict) else json.loads(case)
    animals, ruminants, co = herd.build(case["country"], case["strategy"])
    a = next(x for x in animals if x.animal_type == case["animal"])
    month = _month_of(a, case["month"])
    m = vlib.model_floats(cx["model"])
    st = _replay_state(a, m, "a")
    bad = []
    try:
        out = _run_step(ap, fd, month, [a], [a] if a in ruminants else [], co, lambda x: st["fed"])
    except AssertionError as e:
        return dict(reproduced=False, what="code's own assertion fires: %s" % e)
    scale = 1 + abs(st["cur"]) + abs(m["a_last_slaughter"]) + abs(st["base"])
    sl = _concrete_ledger(a, st, bad, scale)
    cap = a.animal_slaughter_hours * st["base"]
    rem = out["hours_by_size_dict"][a.animal_size]
    if rem < -1e-9 * (1 + cap) or sl * a.animal_slaughter_hours > cap + 1e-9 * (1 + cap):
        bad.append("%s: slaughter uses more labour hours than the class capacity" % a.animal_type)
    return dict(reproduced=bool(bad), what="month step (%s, %s, month %d): %s" % (case["animal"], case["strategy"], month, "; ".join(bad[:3])),
                inputs=dict(case=case, month=month, state=m), observed=dict(end=float(a.population[-1]), slaughter=float(a.slaughter[-1]), births=float(a.births_animals_month[-1])),
                key="step/" + (bad[0].split(": ", 1)[-1].split(" (")[0][:50] if bad else ""))


# ----------------------------------------------------------------------------- coupled species (milk herd -> meat herd; shared labour hours)
def worker_couple(case, seed):
    ap, fd = _mods()
    animals, ruminants, co0 = herd.build(case["country"], case["strategy"])
    sel0 = [x for x in animals if x.animal_type in case["animals"]]
    month = case["month"]
    E = Engine(seed=seed, max_paths=20000, query_timeout_ms=30000)

    def h(E):
        sel = copy.deepcopy(sel0)
        co = copy.deepcopy(co0)
        sts = {}
        for a in sel:
            sts[a.animal_type] = _sym_state(E, a, a.animal_type, light=case.get("light", False))
            if case.get("no_calves"):
                # breeding has stopped (reduced strategy after one gestation period): nothing is born this month, the dairy herd still retires animals
                a.pregnant_animals_total[-1] = 0.0
                a.pregnant_animals_birthing_this_month[-1] = 0.0
        rums = [a for a, a0 in zip(sel, sel0) if a0 in ruminants]
        with patched(ap, fd, isinstance_=True):
            out = _run_step(ap, fd, month, sel, rums, co, lambda x: sts[x.animal_type]["fed"])
        used = {}
        cap = {}
        for a in sel:
            sl = _ledger_checks(E, a, sts[a.animal_type], tag="")
            used[a.animal_size] = used.get(a.animal_size, 0) + sl * a.animal_slaughter_hours
            cap[a.animal_size] = cap.get(a.animal_size, 0) + a.animal_slaughter_hours * sts[a.animal_type]["base"]
        for size in used:
            E.check("labour hours used in a size class <= baseline capacity of the class", used[size] <= cap[size] * (1 + 1e-12) + 1e-12)
            E.check("remaining hours = capacity - used >= 0", conj([out["hours_by_size_dict"][size] >= 0, close(out["hours_by_size_dict"][size], cap[size] - used[size], 1e-12, 1e-9)]))
        for a in sel:
            if a.animal_function == "milk":
                moved = a.retiring_milk_animals[-1] + a.transfer_births[-1]
                E.check("dairy herd records the animals it hands over (negative transfer)", a.transfer_population[-1] == -moved)
                E.check("retirements = herd x retirement rate", close(a.retiring_milk_animals[-1], sts[a.animal_type]["cur"] * a.retiring_milk_animals_fraction, 1e-12, 0))
                for b in sel:
                    if b.animal_function == "meat" and b.animal_species == a.animal_species:
                        E.check("retired dairy animals + surviving male calves == animals added to the same species' meat herd", b.transfer_population[-1] == moved)
            else:
                if not any(b.animal_function == "milk" and b.animal_species == a.animal_species for b in sel):
                    E.check("meat herd without a dairy herd receives no transfer", a.transfer_population[-1] == 0)
    E.explore(h)
    return E.summary()


def replay_couple(case, cx):
    ap, fd = _mods()
    case = case if isinstance(case, dict) else json.loads(case)
    animals, ruminants, co = herd.build(case["country"], case["strategy"])
    sel = [x for x in animals if x.animal_type in case["animals"]]
    m = vlib.model_floats(cx["model"])
    sts = {a.animal_type: _replay_state(a, m, a.animal_type) for a in sel}
    if case.get("no_calves"):
        for a in sel:
            a.pregnant_animals_total[-1] = 0.0
            a.pregnant_animals_birthing_this_month[-1] = 0.0
    bad = []
    try:
        out = _run_step(ap, fd, case["month"], sel, [a for a in sel if a in ruminants], co, lambda x: sts[x.animal_type]["fed"])
    except AssertionError as e:
        return dict(reproduced=False, what="code's own assertion fires: %s" % e)
    scale = 1 + sum(abs(v) for v in m.values() if isinstance(v, float))
    used, cap = {}, {}
    for a in sel:
        sl = _concrete_ledger(a, sts[a.animal_type], bad, scale)
        used[a.animal_size] = used.get(a.animal_size, 0) + sl * a.animal_slaughter_hours
        cap[a.animal_size] = cap.get(a.animal_size, 0) + a.animal_slaughter_hours * sts[a.animal_type]["base"]
    for size in used:
        if used[size] > cap[size] + 1e-9 * (1 + cap[size]):
            bad.append("labour hours used in class %s exceed capacity" % size)
    for a in sel:
        if a.animal_function == "milk":
            moved = a.retiring_milk_animals[-1] + a.transfer_births[-1]
            for b in sel:
                if b.animal_function == "meat" and b.animal_species == a.animal_species and abs(b.transfer_population[-1] - moved) > 1e-9 * scale:
                    bad.append("dairy->meat transfer mismatch (%r leaves, %r arrives)" % (moved, b.transfer_population[-1]))
    return dict(reproduced=bool(bad), what="coupled month step %s: %s" % (case["animals"], "; ".join(bad[:3])), inputs=dict(case=case, state=m),
                observed={a.animal_type: dict(end=float(a.population[-1]), slaughter=float(a.slaughter[-1])) for a in sel},
                key="couple/" + (bad[0].split(": ", 1)[-1].split(" (")[0][:50] if bad else ""))


# ----------------------------------------------------------------------------- initial states satisfy the invariant (concrete, all rows)
def worker_init(case, seed):
    """concrete: the state main() starts from (table loading) satisfies the representation invariant assumed above."""
    ap, fd = _mods()
    E = Engine(seed=seed)

    def h(E):
        for strat in STRATEGIES:
            animals, ruminants, co = herd.build(case["country"], strat, months=1)
            for a in animals:
                ok = (a.population[0] >= 0 and a.slaughter[0] >= 0 and a.pregnant_animals_total[0] >= 0 and a.pregnant_animals_birthing_this_month[0] >= 0
                      and a.baseline_slaughter >= 0 and a.target_population_head >= 0 and a.animal_slaughter_hours > 0)
                E.check("initial state of every species satisfies the invariant (concrete)", bool(ok), info="%s %s %s" % (case["country"], strat, a.animal_type))
    E.explore(h)
    return E.summary()


def main(tier, seed, only=None):
    rep = vlib.Report(PID, tier, seed)
    thorough = tier == "thorough"
    ap, fd = _mods()
    countries, missing = herd.species_cover(4 if not thorough else 8)
    try:
        step, args, ns = herd.lifted_month_step()
    except Exception as e:
        rep.fail_inconclusive("cannot lift main()'s month body: %s" % e)
        return rep.finish()
    steps, couples, seen = [], [], set()
    for c in countries + (["WOR"] if thorough else []):
        animals, ruminants, co = herd.build(c, "baseline")
        for a in animals:
            if a.animal_type in seen and not thorough:
                continue
            seen.add(a.animal_type)
            for s in STRATEGIES:
                for mk in ("zero", "gestation", "other"):
                    steps.append(dict(country=c, strategy=s, animal=a.animal_type, month=mk))
        names = [a.animal_type for a in animals]
        pairs = []
        for a in animals:
            if a.animal_function == "milk":
                partner = [b.animal_type for b in animals if b.animal_function == "meat" and b.animal_species == a.animal_species]
                if partner:
                    pairs.append([a.animal_type, partner[0]])
        if not thorough and c != countries[0]:
            continue
        for s in STRATEGIES if thorough else ["reduced", "baseline"]:
            for p in pairs[: (len(pairs) if thorough else 2)]:
                for mth in ([0, 9, 14] if thorough else [0, 12]):
                    # symbolic pregnancy state for both herds of a pair forks heavily (several cases ran > 20 min): only one pair per strategy in the thorough tier
                    couples.append(dict(country=c, strategy=s, animals=p, month=mth, light=not (thorough and c == countries[0] and p is pairs[0] and mth == 9)))
                    if mth != 0:
                        couples.append(dict(country=c, strategy=s, animals=p, month=mth, light=True, no_calves=True))
            # two meat herds of one size class compete for the same labour hours
            for size in ("small", "medium", "large"):
                same = [a.animal_type for a in animals if a.animal_size == size and a.animal_function == "meat"][:2]
                if len(same) == 2:
                    couples.append(dict(country=c, strategy=s, animals=same, month=3, light=True))
        if thorough and pairs:
            third = [a.animal_type for a in animals if a.animal_size == "large" and a.animal_type not in pairs[0]][:1]
            couples.append(dict(country=c, strategy="reduced", animals=pairs[0] + third, month=12, light=True))
    stubs = STUBS + ["AnimalPopulation.feed_animals replaced by a nondeterministic stub: animals fed = arbitrary value in [0, herd] (decided by C07)",
                     "month body of main() lifted from the AST of the current source and compiled as month_step(...)", "stdout silenced"]
    inv = ["representation invariant of the start state: head count, last slaughter, pregnant totals, baseline slaughter >= 0 (<= 1e12); 0 <= fed <= herd",
           "per-species coefficients (gestation, death rate, hours per head, litter size, strategy row, target head count, retirement rate) concrete from the shipped tables",
           "home-kill budget as shipped (0 hours)"]
    groups = [
        dict(name="month_step_one_species", fn="worker_step", cases=steps, replay=replay_step,
             functions=["animal_populations.main (month body, lifted)", "AnimalPopulation.calculate_additive_births", "calculate_births", "calculate_breeding_changes",
                        "calculate_change_in_population", "calculate_other_deaths", "calculate_slaughter_rate", "calculate_animal_population", "calculate_pregnant_slaughter",
                        "calculate_pregnant_animals_birthing", "calculate_other_death_homekill_head", "calculate_healthy_homekill_head",
                        "calculate_starving_pop_post_slaughter_healthy_homekill", "calculate_starving_homekill_head", "calculate_starving_pop_post_all_slaughter_homekill",
                        "calculate_starving_other_death_head", "other_death_pregnant_adjustment", "calculate_final_population", "calculate_net_slaughter_hours_by_size",
                        "AnimalSpecies.retiring_milk_head_monthly", "AnimalSpecies.total_homekill"],
             bounds="every species type of countries %s (missing: %s) x 3 breeding strategies x month in {0, gestation, gestation+3}; one month from an arbitrary valid state "
                    "(inductive step: covers every month of every history whose states satisfy the invariant)" % (countries, missing or "none"),
             symbolic="start head count, last month's slaughter, pregnant total, pregnant birthing, animals fed, baseline slaughter (labour capacity)", assumptions=inv, stubs=stubs,
             outside=["states violating the invariant", "the pandas table loading (executed concretely)", "IEEE rounding"]),
        dict(name="coupled_species", fn="worker_couple", cases=couples, replay=replay_couple,
             functions=["animal_populations.main (month body, lifted) on 2-3 species"], bounds="dairy+meat herd of the same species, and two meat herds of one size class; months {0,3,9,12,14}",
             symbolic="the full per-species state of each herd", assumptions=inv, stubs=stubs, outside=["more than 3 species in one query"]),
        dict(name="initial_states", fn="worker_init", cases=[dict(country=c) for c in countries], replay=lambda case, cx: dict(reproduced=True, what="initial state violates invariant: %s" % cx.get("info"), key="init/invariant"),
             functions=["AnimalModelBuilder.create_animal_objects", "update_animal_objects_with_milk", "update_animal_objects_with_slaughter", "AnimalSpecies.append_month_zero"],
             bounds="countries %s x 3 strategies, concrete" % countries, symbolic="nothing (concrete base case of the induction)", assumptions=[], stubs=[], outside=["other countries"]),
    ]
    vlib.run_groups(rep, MOD, groups, seed, only)
    return rep.finish()


def replay_file(path):
    rec = json.load(open(path))
    print(json.dumps(rec, indent=1)[:3000])
    return 0
