"""C08 Supply series follow the calendar, disruption schedule and configured delays.

Each supply class of src/food_system is executed on symbolic baselines / ratios / shares (SYMX, real numpy object arrays) and its
monthly series is compared, month by month, with the closed form of the property statement.  The same `series_*` function is
used for the symbolic run (values are SymReal) and for the replay (values are floats), so a solver counterexample is confirmed
on the un-instrumented code with ordinary floats.
"""
import json
import types
import numpy as np
import z3

import vlib
from symx.engine import Engine, SymReal, SymBool, zsum, close, sb, implies, conj
from symx.npproxy import patched, STUBS
from harness import supply as S
from harness import C09_cropland as C09

PID = "C08"
MOD = "harness.C08_supply"
REL = 1e-9


def _m():
    import src.food_system.outdoor_crops as oc
    import src.food_system.greenhouses as gh
    import src.food_system.food as fd
    import src.food_system.seafood as sf
    import src.food_system.stored_food as st
    import src.food_system.methane_scp as scp
    import src.food_system.cellulosic_sugar as cs
    import src.food_system.seaweed as sw
    import src.food_system.meat_and_dairy as md
    import src.food_system.feed_and_biofuels as fb
    import src.food_system.unit_conversions as uc
    import src.optimizer.parameters as pm
    return types.SimpleNamespace(oc=oc, gh=gh, fd=fd, sf=sf, st=st, scp=scp, cs=cs, sw=sw, md=md, fb=fb, uc=uc, pm=pm)


KD, FD, PD, POP = 2100.0, 47.0, 51.0, 4.5e7


class conv:
    """concrete nutrition settings for the process-wide Food.conversions (several classes read kcals_monthly from it)."""

    def __init__(self, fd):
        self.fd = fd

    def __enter__(self):
        self.saved = self.fd.Food.conversions.__dict__.copy()
        self.fd.Food.conversions.set_nutrition_requirements(KD, FD, PD, False, False, POP)

    def __exit__(self, *a):
        self.fd.Food.conversions.__dict__.clear()
        self.fd.Food.conversions.__dict__.update(self.saved)
        return False


# Each series_* returns a list of (label, kind, got, want): kind in {"eq", "ge0", "true", "le"}
def series_greenhouse(M, case, V):
    NM = case["NM"]
    sym = case["sym"]
    base = V("baseline_crop_kcals", 0, 1e10) if sym == "base" else 1000.0
    rs = [V("ratio_year%d" % i, 1e-6 if case["regime"] != "above_one" else 1.000001, 1 if case["regime"] != "above_one" else 3) for i in range(1, 11)] if sym == "ratios" \
        else [0.9, 0.6, 0.45, 0.5, 0.6, 0.7, 0.8, 0.9, 0.95, 1.0]
    c = S.crop_constants(NM, base, rs, case["rotation"], exponent=0.8, add_gh=True, gh_delay=case["delay"], dist=case.get("dist", 5.0), retail=case.get("retail", 10.0))
    c_before = _snap_inputs(c)
    o = M.oc.OutdoorCrops(c)
    o.calculate_rotation_ratios(c)
    o.calculate_monthly_production(c)
    tc = M.pm.Parameters().init_greenhouse_params({}, c, o)
    gk = tc["greenhouse_crops"].kcals
    out = [("greenhouse crops: one value per month", "true", len(gk) == NM, True)]
    annual = base * (1 - S.SEED_FRACTION) * S.BILLION_KCALS_PER_TON
    waste = (1 - c["WASTE_DISTRIBUTION"]["CROPS"] / 100) * (1 - c["WASTE_RETAIL"] / 100)
    for m in range(NM):
        yr = S.year_of_month(m)
        ratio = S.year1_ratio(rs[0], S.SEASON, "XXX") if yr == 1 else rs[yr - 1]
        if case["rotation"]:
            eff = ratio if (ratio > 1) else ratio ** 0.8
        else:
            eff = ratio
        frac = S.greenhouse_fraction(m, case["delay"], c["GREENHOUSE_AREA_MULTIPLIER"], NM)
        # greenhouses are not seasonal: the annual amount spread evenly, on the cropland share they occupy, with the configured yield gain
        want = annual / 12 * eff * frac * waste * (1 + c["GREENHOUSE_GAIN_PCT"] / 100)
        out.append(("greenhouse crops = annual/12 x ratio x cropland share x (1-waste) x (1+gain)", "eq", gk[m], want))
        out.append(("greenhouse crops non-negative", "ge0", gk[m], 0))
    return _with_frame(c, c_before, out)


def series_fish(M, case, V):
    NM = case["NM"]
    annual = V("fish_dry_caloric_annual", 0, 1e9) if case["sym"] == "annual" else 1234.5
    pct_long = [V("fish_percent_%d" % m, 0, 200) for m in range(NM)] + [100.0] * 5 if case["sym"] == "percent" else [100 - 0.5 * m for m in range(NM + 5)]
    c = dict(NMONTHS=NM, ADD_FISH=case.get("add", True), WASTE_DISTRIBUTION={"SEAFOOD": case.get("dist", 7.0)}, WASTE_RETAIL=case.get("retail", 12.0),
             FISH_DRY_CALORIC_ANNUAL=annual, FISH_PROTEIN_TONS_ANNUAL=annual * 3.0, FISH_FAT_TONS_ANNUAL=annual * 2.0)
    s = M.sf.Seafood(c)
    handed = {"FISH_PERCENT_MONTHLY": np.array(pct_long, dtype=object) if case["sym"] == "percent" else np.array(pct_long, dtype=float)}
    before = list(handed["FISH_PERCENT_MONTHLY"])
    s.set_seafood_production(handed)
    k = s.to_humans.kcals
    out = [("fish: one value per month", "true", len(k) == NM and len(s.to_humans.fat) == NM and len(s.to_humans.protein) == NM, True)]
    # the series is a function of its inputs: the inputs are left as they were, and computing it again from the same objects gives the same series
    after = list(handed["FISH_PERCENT_MONTHLY"])
    out.append(("fish: the monthly percentages handed in are not modified", "true", len(after) == len(before) and all((a is b) or bool(a == b) for a, b in zip(after, before)), True))
    s2 = M.sf.Seafood(c)
    s2.set_seafood_production(handed)
    for m in range(NM):
        out.append(("fish: a second computation from the same inputs gives the same series", "eq", s2.to_humans.kcals[m], k[m]))
    w = (1 - c["WASTE_DISTRIBUTION"]["SEAFOOD"] / 100) * (1 - c["WASTE_RETAIL"] / 100)
    for m in range(NM):
        want = annual * S.BILLION_KCALS_PER_TON / 12 * pct_long[m] / 100 * w if case.get("add", True) else 0
        out.append(("fish = annual/12 x monthly percent x (1-distribution waste)(1-retail waste)", "eq", k[m], want))
        out.append(("fish non-negative", "ge0", k[m], 0))
        if case.get("add", True):
            out.append(("fish protein = annual tons/12/1000 x percent x waste", "eq", s.to_humans.protein[m], annual * 3.0 / 1e3 / 12 * pct_long[m] / 100 * w))
    return out


def series_grass(M, case, V):
    NM = case["NM"]
    base = V("grass_baseline_monthly", 0, 1e6) if case["sym"] == "base" else 12.5
    rs = [V("ratio_grass_year%d" % i, 0, 3) for i in range(1, 11)] if case["sym"] == "ratios" else [0.9, 0.6, 0.45, 0.5, 0.6, 0.7, 0.8, 0.9, 0.95, 1.0]
    c = dict(ADD_MILK=True, NMONTHS=NM, ADD_MEAT=True, HUMAN_INEDIBLE_FEED_BASELINE_MONTHLY=base, TONS_MILK_ANNUAL=1.0, TONS_CHICKEN_AND_PORK_ANNUAL=1.0, TONS_BEEF_ANNUAL=1.0,
             INITIAL_MILK_CATTLE=1.0, INIT_SMALL_ANIMALS=1.0, INIT_MEDIUM_ANIMALS=1.0, INIT_LARGE_ANIMALS_WITH_MILK_COWS=2.0, WASTE_DISTRIBUTION={"MEAT": 4.0, "MILK": 3.0}, WASTE_RETAIL=10.0)
    for i, r in enumerate(rs, 1):
        c["RATIO_GRASSES_YEAR%d" % i] = r
    c_before = _snap_inputs(c)
    md = M.md.MeatAndDairy(c)
    g = md.human_inedible_feed
    out = [("grass: one value per month", "true", len(g.kcals) == NM, True), ("grass units", "true", list(g.units) == ["billion kcals each month", "thousand tons each month", "thousand tons each month"], True)]
    nyears = NM // 12
    for m in range(NM):
        yr = 1 if m < 8 else min(nyears, 2 + (m - 8) // 12)
        want = base * rs[yr - 1] * 1e6 * S.BILLION_KCALS_PER_TON      # million dry caloric tons -> billion kcals
        out.append(("grass = monthly baseline x ratio of the model year (year 1 = May-December)", "eq", g.kcals[m], want))
        out.append(("grass non-negative", "ge0", g.kcals[m], 0))
    return _with_frame(c, c_before, out)


def series_feed_biofuel(M, case, V):
    NM = case["NM"]
    fk, bk = V("feed_kcals_annual", 0, 1e9), V("biofuel_kcals_annual", 0, 1e9)
    ff, bp = V("feed_fat_annual", 0, 1e9), V("biofuel_protein_annual", 0, 1e9)
    c = dict(NMONTHS=NM, BIOFUEL_KCALS=bk, BIOFUEL_FAT=5.0, BIOFUEL_PROTEIN=bp, FEED_KCALS=fk, FEED_FAT=ff, FEED_PROTEIN=7.0,
             DELAY=dict(BIOFUEL_SHUTOFF_MONTHS=case["bio"], FEED_SHUTOFF_MONTHS=case["feed"]))
    c_before = _snap_inputs(c)
    f = M.fb.FeedAndBiofuels(c)
    bio, feed = f.get_biofuels_and_feed_from_delayed_shutoff(c)
    out = [("feed/biofuel demand: one value per month", "true", len(feed.kcals) == NM and len(bio.kcals) == NM and len(feed.fat) == NM and len(bio.protein) == NM, True)]
    for m in range(NM):
        out.append(("feed demand = annual/12 before the shut-off month, exactly 0 from it", "eq", feed.kcals[m], fk / 12 * S.BILLION_KCALS_PER_TON if m < case["feed"] else 0))
        out.append(("biofuel demand = annual/12 before the shut-off month, exactly 0 from it", "eq", bio.kcals[m], bk / 12 * S.BILLION_KCALS_PER_TON if m < case["bio"] else 0))
        out.append(("feed fat demand", "eq", feed.fat[m], ff / 12 / 1e3 if m < case["feed"] else 0))
        out.append(("biofuel protein demand", "eq", bio.protein[m], bp / 12 / 1e3 if m < case["bio"] else 0))
        out.append(("feed demand non-negative", "ge0", feed.kcals[m], 0))
        out.append(("biofuel demand non-negative", "ge0", bio.kcals[m], 0))
    return _with_frame(c, c_before, out)


SCP_RAMP = [0] * 12 + [2] * 5 + [4] + [7] * 5 + [9] + [11] * 6 + [13] + [15] * 1000     # percent of global needs, months after the start-up delay (Garcia Martinez et al.)
CS_RAMP = [0.0] * 5 + [4.7] * 3 + [9.5] * 1000


def _industrial(case, V):
    gpop = V("global_pop", 0, 1e11) if case["sym"] == "pop" else 7.8e9
    frac = V("global_production_fraction", 0, 1) if case["sym"] == "fraction" else 0.0123
    slope = V("slope_multiplier", 0, 5) if case["sym"] == "slope" else 1.0
    return gpop, frac, slope


def series_scp(M, case, V):
    NM, d = case["NM"], case["delay"]
    gpop, frac, slope = _industrial(case, V)
    c = dict(NMONTHS=NM, INDUSTRIAL_FOODS_SLOPE_MULTIPLIER=slope, POP=POP, GLOBAL_POP=gpop, WASTE_DISTRIBUTION={"SUGAR": case.get("dist", 6.0)}, WASTE_RETAIL=10.0,
             ADD_METHANE_SCP=case.get("add", True), DELAY=dict(INDUSTRIAL_FOODS_MONTHS=d), SCP_GLOBAL_PRODUCTION_FRACTION=frac)
    c_before = _snap_inputs(c)
    s = M.scp.MethaneSCP(c)
    s.calculate_monthly_scp_caloric_production(c)
    s.calculate_scp_fat_and_protein_production()
    k = s.production.kcals
    out = [("SCP: one value per month", "true", len(k) == NM and len(s.production.fat) == NM, True)]
    need = gpop * KD * 30 / 1e9
    for m in range(NM):
        ramp = (SCP_RAMP[m - d] if m >= d else 0) if case.get("add", True) else 0
        want = ramp / (1 - 0.12) / 100 * slope * need * frac * (1 - c["WASTE_DISTRIBUTION"]["SUGAR"] / 100)
        out.append(("SCP = ramp table shifted by the start-up delay x global needs x production share x (1-waste)", "eq", k[m], want))
        out.append(("SCP non-negative", "ge0", k[m], 0))
        if m:
            out.append(("SCP ramps monotonically", "le", k[m - 1], k[m]))
    return _with_frame(c, c_before, out)


def series_cs(M, case, V):
    NM, d = case["NM"], case["delay"]
    gpop, frac, slope = _industrial(case, V)
    c = dict(NMONTHS=NM, INDUSTRIAL_FOODS_SLOPE_MULTIPLIER=slope, POP=POP, GLOBAL_POP=gpop, WASTE_DISTRIBUTION={"SUGAR": case.get("dist", 6.0)}, WASTE_RETAIL=10.0,
             ADD_CELLULOSIC_SUGAR=case.get("add", True), DELAY=dict(INDUSTRIAL_FOODS_MONTHS=d), CS_GLOBAL_PRODUCTION_FRACTION=frac)
    c_before = _snap_inputs(c)
    s = M.cs.CellulosicSugar(c)
    s.calculate_monthly_cs_production(c)
    k = s.production.kcals
    out = [("cellulosic sugar: one value per month", "true", len(k) == NM, True)]
    need = gpop * KD * 30 / 1e9
    for m in range(NM):
        ramp = (CS_RAMP[m - d] if m >= d else 0) if case.get("add", True) else 0
        want = ramp / (1 - 0.12) / 100 * slope * need * frac * (1 - c["WASTE_DISTRIBUTION"]["SUGAR"] / 100)
        out.append(("cellulosic sugar = ramp table shifted by the start-up delay x global needs x production share x (1-waste)", "eq", k[m], want))
        out.append(("cellulosic sugar non-negative", "ge0", k[m], 0))
        if m:
            out.append(("cellulosic sugar ramps monotonically", "le", k[m - 1], k[m]))
    return _with_frame(c, c_before, out)


def series_seaweed(M, case, V):
    NM, d = case["NM"], case["delay"]
    newf = V("seaweed_new_area_fraction", 0, 1) if case["sym"] == "new" else 0.03
    maxf = V("seaweed_max_area_fraction", 0, 1) if case["sym"] == "max" else 0.002
    c = dict(NMONTHS=NM, SEAWEED_MAX_AREA_FRACTION=maxf, ADD_SEAWEED=case.get("add", True), MAX_SEAWEED_AS_PERCENT_KCALS_HUMANS=10, MAX_SEAWEED_AS_PERCENT_KCALS_FEED=10,
             MAX_SEAWEED_AS_PERCENT_KCALS_BIOFUEL=10, INITIAL_SEAWEED_FRACTION=0.01, SEAWEED_NEW_AREA_FRACTION=newf, WASTE_DISTRIBUTION={"SEAWEED": 8.0}, WASTE_RETAIL=10.0,
             DELAY=dict(SEAWEED_MONTHS=d), SEAWEED_GROWTH_PER_DAY={str(i): (V("growth_per_day_%d" % i, 0, 30) if case["sym"] == "growth" else 5.0 + 0.1 * i) for i in range(NM)})
    c_before = _snap_inputs(c)
    s = M.sw.Seaweed(c)
    area = s.get_built_area(c)
    out = [("seaweed farm area: one value per month", "true", len(area) == NM, True)]
    init = 0.1 * newf
    cap = 1853 * maxf
    per_month = 2.0765 * 30 * newf
    for m in range(NM):
        if case.get("add", True):
            raw = init if m < d else init + (m - d) * per_month
        else:
            raw = init
        want = raw if (raw <= cap) else cap
        out.append(("seaweed farm area = initial area, flat for the delay, then + new area per month, capped at the maximum", "eq", area[m], want))
        out.append(("seaweed farm area non-negative", "ge0", area[m], 0))
        if m:
            out.append(("seaweed farm area never shrinks", "le", area[m - 1], area[m]))
    if case["sym"] == "growth" or case.get("growth"):
        g = s.get_growth_rates(c)
        out.append(("seaweed growth: one value per month", "true", len(g) == NM, True))
        for m in range(NM):
            daily = c["SEAWEED_GROWTH_PER_DAY"][str(m)]
            out.append(("seaweed growth factor of month m = 100 x (1 + daily percent/100)^30 of month m's column", "eq", g[m], 100 * ((daily / 100 + 1) ** 30)))
            out.append(("seaweed growth factor non-negative", "ge0", g[m], 0))
    return _with_frame(c, c_before, out)



def _snap_inputs(c):
    """detached copy of the constants handed to a supply class (symbolic leaves kept as they are)"""
    from harness.history import snapshot
    return snapshot(c)


def _with_frame(c, before, rows):
    """adds the frame condition: the supply classes read their inputs, they do not rewrite them"""
    from harness.history import snapshot, compare
    diffs = {}
    compare(None, before, snapshot(c), "inputs", diffs)
    where = diffs.pop("__where__", [])
    from symx.engine import SymBool
    ok = all((bool(x) if not isinstance(x, SymBool) else True) for conds in diffs.values() for x in conds) and not where
    return list(rows) + [("the constants handed in are not modified by the computation", "true", ok, True)]


MONTHS = ["JAN", "FEB", "MAR", "APR", "MAY", "JUN", "JUL", "AUG", "SEP", "OCT", "NOV", "DEC"]


def series_stored(M, case, V):
    symm = case["sym_months"]
    stocks = {mn: (V("stock_end_%s" % mn, 0, 1e9) if mn in symm else 500.0 + 37.0 * i) for i, mn in enumerate(MONTHS)}
    c = dict(END_OF_MONTH_STOCKS=stocks, RATIO_STOCKS_UNTOUCHED=case["untouched"], PERCENT_STORED_FOOD_TO_USE=case["percent"], WASTE_DISTRIBUTION={"CROPS": case.get("dist", 5.0)})
    c_before = _snap_inputs(c)
    oc = types.SimpleNamespace(OG_FRACTION_FAT=0.01, OG_FRACTION_PROTEIN=0.02)
    s = M.st.StoredFood(c, oc)
    s.calculate_stored_food_to_use(case.get("start", S.START_MONTH))
    start = case.get("start", S.START_MONTH)
    prev = MONTHS[(start - 2) % 12]       # the stock at the start of the first simulated month is the end-of-month stock of the month before
    vals = [stocks[mn] for mn in MONTHS]
    lo = vals[0]
    for v in vals[1:]:
        lo = v if (v < lo) else lo
    want = (stocks[prev] * case["percent"] / 100 - lo * case["untouched"]) * S.BILLION_KCALS_PER_TON * (1 - c["WASTE_DISTRIBUTION"]["CROPS"] / 100)
    k = s.initial_available.kcals
    return _with_frame(c, c_before, [("initial stored food = previous month's end stock x share used - untouched share of the annual minimum, x (1 - waste)", "eq", k, want),
            ("initial stored food non-negative", "ge0", k, 0),
            ("initial stored food is a single total in billion kcals", "true", list(s.initial_available.units) == ["billion kcals", "thousand tons", "thousand tons"], True),
            ("stored food fat = kcals x fat fraction", "eq", s.initial_available.fat, want * 0.01)])


def series_year1(M, case, V):
    """the first-year rule on its own: symbolic first-year ratio and symbolic shares of the harvest in January..April (the series groups use one fixed seasonality,
    which never reaches the 'less than a quarter of the harvest after April' region)"""
    r1 = V("first_year_ratio", -0.5, 2.0)
    early = [V("share_%s" % mn, 0, 1) for mn in MONTHS[:4]]
    rest = 1 - (early[0] + early[1] + early[2] + early[3])
    season = early + [rest / 8] * 8
    if not (rest >= 0):
        return []
    got = M.oc.OutdoorCrops.get_year_1_ratio_using_fraction_harvest_before_may(None, r1, season, case["country"])
    want = S.year1_ratio(r1, season, case["country"])
    return [("first-year ratio for May-December follows the documented rule (nothing left after April -> 0; under a quarter of the harvest after April -> unchanged; else remaining / normal share)", "eq", got, want),
            ("first-year ratio non-negative", "ge0", got, 0)]


SERIES = dict(year1=series_year1, greenhouse=series_greenhouse, fish=series_fish, grass=series_grass, feed_biofuel=series_feed_biofuel, scp=series_scp, cs=series_cs, seaweed=series_seaweed, stored=series_stored)
MODS = dict(year1=("oc",), greenhouse=("oc", "gh", "fd", "pm"), fish=("sf", "fd"), grass=("md", "fd", "uc"), feed_biofuel=("fb", "fd"), scp=("scp", "fd"), cs=("cs", "fd"), seaweed=("sw",), stored=("st", "fd"))


def history_cases():
    """series computed after an earlier computation of the same kind from other inputs in the same process (module- or class-level leftovers)"""
    return [dict(kind="year1", country="XXX", after_other_run=True), dict(kind="fish", NM=48, sym="annual", after_other_run=True), dict(kind="fish", NM=48, sym="percent", after_other_run=True),
            dict(kind="stored", sym_months=["APR", "MAY", "NOV"], untouched=1, percent=100, after_other_run=True)]


def worker_series(case, seed):
    M = _m()
    E = Engine(seed=seed, max_paths=3000, query_timeout_ms=30000)
    E.div0_mode = "numpy"
    E.int_pow_uf = True
    fn = SERIES[case["kind"]]
    mods = [getattr(M, k) for k in MODS[case["kind"]]]

    def h(E):
        def V(name, lo, hi):
            v = E.real(name)
            E.assume(v >= lo)
            E.assume(v <= hi)
            return v
        with conv(M.fd), patched(*mods, isinstance_=True, symarray=(case["kind"] == "seaweed")):
            if case.get("after_other_run"):
                # the same series was computed earlier in this process from OTHER inputs (own symbols): whatever that left behind must not reach this run
                def V_other(name, lo, hi):
                    return V("earlier_run_" + name, lo, hi)
                try:
                    fn(M, case, V_other)
                except AssertionError:
                    pass
            rows = fn(M, case, V)
        # a division by zero yields an unconstrained value in SYMX (numpy gives inf/nan): it then fails the closed-form equality below
        for label, kind, got, want in rows:
            if kind == "eq":
                E.check(label, close(got, want, REL, 1e-12))
            elif kind == "ge0":
                E.check(label, got >= 0)
            elif kind == "le":
                E.check(label, got <= want)
            else:
                E.check(label, got == want if not isinstance(got, (bool, np.bool_)) else bool(got))
    E.explore(h)
    return E.summary()


def replay_series(case, cx):
    M = _m()
    case = case if isinstance(case, dict) else json.loads(case)
    m = vlib.model_floats(cx["model"])

    def V(name, lo, hi):
        return np.float64(m[name])      # table values reach the classes as numpy float64
    bad = []
    try:
        with conv(M.fd), np.errstate(all="ignore"):
            if case.get("after_other_run"):
                try:
                    SERIES[case["kind"]](M, case, lambda name, lo, hi: np.float64(m.get("earlier_run_" + name, (lo + hi) / 2.0)))
                except AssertionError:
                    pass
            rows = SERIES[case["kind"]](M, case, V)
    except AssertionError as e:
        return dict(reproduced=False, what="code's own assertion fires on this input: %s" % e)
    first = None
    for i, (label, kind, got, want) in enumerate(rows):
        if kind == "eq":
            ok = np.isfinite(float(got)) and abs(float(got) - float(want)) <= 1e-7 * (abs(float(want))) + 1e-9
        elif kind == "ge0":
            ok = float(got) >= -1e-12
        elif kind == "le":
            ok = float(got) <= float(want) + 1e-9 * (1 + abs(float(want)))
        else:
            ok = bool(got)
        if not ok:
            bad.append("%s: got %r expected %r" % (label, got if kind != "true" else bool(got), want))
            if first is None:
                first = (label, i)
    key = "series/%s/%s" % (case["kind"], first[0][:60] if first else "")
    # the known SCP defect: the start-up delay is applied twice
    if case["kind"] == "scp" and bad and case["delay"] > 0:
        with conv(M.fd), np.errstate(all="ignore"):
            rows2 = SERIES["scp"](M, dict(case, delay=2 * case["delay"]), V)
            real = [r[2] for r in SERIES["scp"](M, case, V) if r[1] == "eq"]
        twice = [r[3] for r in rows2 if r[1] == "eq"]
        if len(real) == len(twice) and all(abs(float(a) - float(b)) <= 1e-7 * abs(float(b)) + 1e-9 for a, b in zip(real, twice)):
            key = "series/scp/start-up delay applied twice"
    return dict(reproduced=bool(bad), what="%s series: %s" % (case["kind"], "; ".join(bad[:2])), inputs=dict(case=case, values=m), observed=bad[:6], key=key)


def main(tier, seed, only=None):
    rep = vlib.Report(PID, tier, seed)
    thorough = tier == "thorough"
    H = [48, 120] if not thorough else [48, 60, 72, 84, 96, 108, 120]
    delays = [0, 2, 5] if not thorough else list(range(0, 7))
    outdoor = []
    for NM in H:
        for rot in (True, False):
            outdoor.append(dict(NM=NM, rotation=rot, gh=False, regime="mixed", sym="ratios", base=1000.0))
            if thorough or NM == 48:
                outdoor.append(dict(NM=NM, rotation=rot, gh=False, regime="free_2_5", sym="ratios", base=2.5))
            else:
                outdoor.append(dict(NM=NM, rotation=rot, gh=False, regime="above_one", sym="ratios", base=2.5))
            outdoor.append(dict(NM=NM, rotation=rot, gh=False, regime="below_one", sym="base"))
        outdoor.append(dict(NM=NM, rotation=True, gh=False, regime="below_one", sym="ratios", area=72 / 39))
    ser = []
    for NM in H:
        for d in delays:
            for symk in ("pop", "fraction") + (("slope",) if thorough else ()):
                ser.append(dict(kind="scp", NM=NM, delay=d, sym=symk))
                ser.append(dict(kind="cs", NM=NM, delay=d, sym=symk))
            if thorough or NM == 48 or d == 2:
                ser.append(dict(kind="seaweed", NM=NM, delay=d, sym="new"))
                ser.append(dict(kind="greenhouse", NM=NM, delay=d, sym="ratios", rotation=(d % 2 == 1), regime="below_one"))
            if thorough or NM == 48:
                ser.append(dict(kind="seaweed", NM=NM, delay=d, sym="max"))
            ser.append(dict(kind="greenhouse", NM=NM, delay=d, sym="base", rotation=(d % 2 == 0), regime="below_one"))
        ser.append(dict(kind="scp", NM=NM, delay=2, sym="pop", add=False))
        ser.append(dict(kind="cs", NM=NM, delay=2, sym="pop", add=False))
        if thorough or NM == 48:
            ser.append(dict(kind="seaweed", NM=NM, delay=1, sym="new", add=False))
        ser.append(dict(kind="seaweed", NM=NM, delay=1, sym="growth"))
        ser.append(dict(kind="greenhouse", NM=NM, delay=2, sym="ratios", rotation=True, regime="above_one"))
        for symk in ("annual", "percent"):
            ser.append(dict(kind="fish", NM=NM, sym=symk))
        ser.append(dict(kind="fish", NM=NM, sym="annual", add=False))
        for symk in ("base", "ratios"):
            ser.append(dict(kind="grass", NM=NM, sym=symk))
        durs = sorted(set([0, 1, 2, 3, 11, 12, NM - 1, NM])) if not thorough else list(range(0, NM + 1, 1 if NM == 48 else 7)) + [NM]
        for i, du in enumerate(durs):
            ser.append(dict(kind="feed_biofuel", NM=NM, feed=du, bio=durs[(i * 3 + 1) % len(durs)]))
    for start in ([S.START_MONTH] if not thorough else list(range(1, 13))):
        for (pct, unt) in ((100, 0), (100, 1), (100, 0.26), (50, 0.5)):
            ser.append(dict(kind="stored", sym_months=["APR", "JAN", "AUG", "DEC"], percent=pct, untouched=unt, start=start))
            ser.append(dict(kind="stored", sym_months=["FEB", "MAR", "APR", "MAY", "JUN"], percent=pct, untouched=unt, start=start))
    stubs = STUBS + ["food.isinstance accepts SymReal as float", "x**30 (seaweed growth) and x**e (relocation) as uninterpreted functions shared by code path and oracle",
                     "Food.conversions set to concrete nutrition settings (2100 kcal, 4.5e7 people)"]
    ser += [dict(kind="year1", country=c) for c in ("XXX", "ZAF", "JPN", "PRK", "KOR")]
    ser += history_cases()
    groups = [
        dict(name="outdoor_crops_series", fn="worker_outdoor_c08", cases=outdoor, replay=C09.replay_outdoor,
             functions=["OutdoorCrops.calculate_monthly_production", "get_year_1_ratio_using_fraction_harvest_before_may", "assign_reduction_from_climate_impact",
                        "assign_increase_from_increased_cultivated_area", "set_crop_production_minus_greenhouse_area"],
             bounds="horizons %s, every month; relocation on/off; expansion; start month May; year blocks 8,12,...,16" % H,
             symbolic="the 10 yearly ratios (baseline concrete) or the annual baseline (ratios concrete)", assumptions=["ratios in the regime of the case", "seasonality concrete, 12 distinct shares"], stubs=stubs,
             outside=["joint baseline x ratio (see C09 48-month cases)", "symbolic seasonality"]),
        dict(name="other_supply_series", fn="worker_series", cases=ser, replay=replay_series,
             functions=["Parameters.init_greenhouse_params", "Greenhouses.get_greenhouse_yield_per_ha", "Seafood.__init__/set_seafood_production", "MeatAndDairy.__init__ (grass)",
                        "FeedAndBiofuels.get_feed_usage/get_biofuel_usage/get_biofuels_and_feed_from_delayed_shutoff", "MethaneSCP.__init__/calculate_monthly_scp_caloric_production/create_scp_food_from_kcals",
                        "CellulosicSugar.calculate_monthly_cs_production", "Seaweed.__init__/get_built_area/get_growth_rates", "StoredFood.__init__/calculate_stored_food_to_use",
                        "OutdoorCrops.get_year_1_ratio_using_fraction_harvest_before_may (symbolic ratio and early-harvest shares)"],
             bounds="horizons %s, every month; start-up delays %s; shut-off durations incl. 0 and NMONTHS; stored-food regimes (percent used, untouched share) x start month" % (H, delays),
             symbolic="one factor per case: annual baseline / global population / production share / yearly ratios / monthly percentages / area fractions / 4-5 of the 12 monthly stocks",
             assumptions=["inputs non-negative within generous upper bounds", "waste percentages concrete (one symbolic factor per product)"], stubs=stubs,
             outside=["the numeric ramp tables (SCP/CS percentages) are copied into the oracle: only placement, scaling and capping are decided", "symbolic waste percentages", "all 12 stocks symbolic at once (2^11 orderings)"]),
    ]
    vlib.run_groups(rep, MOD, groups, seed, only)
    return rep.finish()


def worker_outdoor_c08(case, seed):
    return C09.worker_outdoor(case, seed)


def replay_file(path):
    rec = json.load(open(path))
    print(json.dumps(rec, indent=1)[:3000])
    return 0
