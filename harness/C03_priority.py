"""C03 Humans come before animal feed and biofuel  (sentence 2 completely, sentence 1 at the level of its mechanisms; see DESIGN.md C03).

(a) SYMX: the demand schedule of every documented shut-off option is annual/12 before the shut-off month and exactly zero from it on.
(b) LPSYM: in every LP the real code builds, feed and biofuel drawn from human-edible food equal the charge (human rounds) / stay within the ceiling
    (feed round), and with a zero charge/ceiling from month k on every single feed and biofuel component is zero from month k on; in the feed round the
    pinned human consumption is kept (humans' minimum is not traded away inside the round).
(c) the hand-offs that connect the rounds (decided in C05 / C18, executed again here on small cases): the charge of the final round is within
    demand, the pinned minimum is min(no-feed result, threshold).
"""
import json
import re
import z3

import vlib
from lpsym import model as LM
from lpsym import spec as SP
from lpsym import queries as Q
from harness import C08_supply as C08
from harness import C05_meat_milk as C05
from harness import C18_handoffs as C18

PID = "C03"
MOD = "harness.C03_priority"
FLAGS = LM.FOODS
SHUTOFFS = [(0, 0), (1, 1), (2, 1), (3, 2), (12, 6), ("NM", "NM")]      # (feed, biofuel) months of the seven documented options (two share NM,NM)


def _kind(name):
    return re.sub(r" \[month \d+\]", "", name)


def worker_schedule(case, seed):
    return C08.worker_series(case, seed)


def worker_lp(case, seed):
    cfg = LM.default_cfg(**{k: v for k, v in case.items() if k != "shutoff"})
    M = LM.build(cfg)
    N = cfg["N"]
    k = case["shutoff"]
    human = cfg["opt"] == "to_humans"
    cap_f, cap_b = ("feed", "biofuel") if human else ("max_feed", "max_biofuel")
    zero = [M.S[cap_f][m] == 0 for m in range(k, N)] + [M.S[cap_b][m] == 0 for m in range(k, N)]
    hyps = list(M.cons.values()) + M.bounds + M.sup + zero
    if SP.degenerate(M):
        hyps += [x == 0 for x in M.S["feed"] + M.S["biofuel"]]
    Mt = Q.scale_term(M)
    ent = Q.Entail(hyps, seed=seed)
    canary = 0 if ent.satisfiable() == "sat" else 1
    obligations, cex = {}, []

    def goal(name, f, month):
        ob = obligations.setdefault(name, dict(unsat=0, sat=0, unknown=0))
        r, m = ent.check(Q.relax(f, Mt))
        ob[r] += 1
        if r == "sat" and not any(c["obligation"] == name for c in cex):
            cex.append(dict(obligation=name, model={}, info="month %d" % month, vals=[Q.model_values(M, m)], growth=M.growth, shutoff=k))
    comps = ["stored_food", "crops_food", "seaweed", "cellulosic_sugar", "methane_scp"]
    for m in range(N):
        if human:
            goal("human round: feed drawn from human-edible food == amount charged", SP.feed_sum(M, m) == SP.zz_s(M.S["feed"][m]), m)
            goal("human round: biofuel drawn from human-edible food == amount charged", SP.biofuel_sum(M, m) == SP.zz_s(M.S["biofuel"][m]), m)
        else:
            goal("feed round: feed <= demand ceiling", SP.feed_sum(M, m) <= SP.zz_s(M.S["max_feed"][m]), m)
            if m > 0:
                # what keeps late surpluses from the animals while the early months are pinned to people
                goal("feed round: feed drawn never rises from one month to the next", SP.feed_sum(M, m) <= SP.feed_sum(M, m - 1), m)
            goal("feed round: biofuel <= demand ceiling", SP.biofuel_sum(M, m) <= SP.zz_s(M.S["max_biofuel"][m]), m)
        if m >= k:
            for c in comps:
                for use in ("feed", "biofuel"):
                    v = M.V["%s_%s" % (c, use)][m]
                    if hasattr(v, "z"):
                        goal("no %s from any human-edible food from the shut-off month on" % use, v.z == 0, m)
    if not human:
        tol = 1e-4 if cfg["pop"] < 1e7 else 1e-5
        K = LM.q(cfg["seaweed_kcals"])
        pinmap = dict(outdoor_crops=("crops_food_to_humans", LM.q(1), "OUTDOOR_GROWING"), stored_food=("stored_food_to_humans", LM.q(1), "STORED_FOOD"), meat=("meat_eaten", LM.q(1), "MEAT"),
                      methane_scp=("methane_scp_to_humans", LM.q(1), "METHANE_SCP"), cellulosic_sugar=("cellulosic_sugar_to_humans", LM.q(1), "CELLULOSIC_SUGAR"), seaweed=("seaweed_to_humans", K, "SEAWEED"))
        for food, (key, ratio, flag) in pinmap.items():
            if not cfg["flags"].get(flag):
                continue
            for m in range(N):
                goal("feed round: people keep at least (1 - 1e-4) x their pinned minimum of every food", LM.zz(M.V[key][m]) * ratio >= LM.q(1 - 1e-4) * M.S["pins"][food][m], m)
    st = dict(paths=1, completed=1, pruned_by_code_assertions=0, pruned_other=0, queries=ent.queries, solver_s=round(ent.solver_s, 3), branches=0, unsat=ent.counts["unsat"], sat=ent.counts["sat"],
              unknown=ent.counts["unknown"], forks=0)
    return dict(stats=st, obligations=obligations, cex=cex, errors=[], n_errors=0, canary_bad=canary)


def replay_lp(case, cx):
    case = case if isinstance(case, dict) else json.loads(case)
    cfg = LM.default_cfg(**{k: v for k, v in case.items() if k != "shutoff"})
    N, k = cfg["N"], case["shutoff"]
    # the solver's instance first; if CBC's optimum does not show the violation there, instances of the same configuration in which the feed ceiling leaves room
    # (the feed round only takes from people what it can hand to animals)
    import random
    import copy
    from harness.C02_optimum import _concrete_vals
    rng = random.Random(777)
    cands = [cx["vals"][0]]
    roomy = copy.deepcopy(cx["vals"][0])
    for key in ("max_feed", "max_biofuel"):
        roomy[key] = [x + 50.0 if m < k else x for m, x in enumerate(roomy[key])]
    cands.append(roomy)
    for _ in range(2):
        v = _concrete_vals(cfg, rng)
        for key in ("feed", "biofuel", "max_feed", "max_biofuel"):
            v[key] = [x if m < k else 0.0 for m, x in enumerate(v[key])]
        cands.append(v)
    last = None
    for vals in cands:
        last = _replay_lp_on(case, cfg, vals, cx, N, k)
        if last["reproduced"]:
            return last
    return last


def _replay_lp_on(case, cfg, vals, cx, N, k):
    try:
        pf, X = Q.run_real(cfg, vals, cx["growth"])
    except AssertionError as e:
        return dict(reproduced=False, what="real optimiser failed: %s" % e)
    bad = []
    human = cfg["opt"] == "to_humans"
    Kk = cfg["seaweed_kcals"]
    g = lambda key, m: float(X[key][m] or 0.0)
    fs = lambda m: g("stored_food_feed", m) + g("crops_food_feed", m) + g("seaweed_feed", m) * Kk + g("cellulosic_sugar_feed", m) + g("methane_scp_feed", m)
    bs = lambda m: g("stored_food_biofuel", m) + g("crops_food_biofuel", m) + g("seaweed_biofuel", m) * Kk + g("cellulosic_sugar_biofuel", m) + g("methane_scp_biofuel", m)
    for m in range(N):
        capf, capb = (vals["feed"][m], vals["biofuel"][m]) if human else (vals["max_feed"][m], vals["max_biofuel"][m])
        tol = 1e-6 * (1 + capf + capb)
        if (human and abs(fs(m) - capf) > tol) or (not human and fs(m) > capf + tol):
            bad.append("month %d feed %r vs %r" % (m, fs(m), capf))
        if (human and abs(bs(m) - capb) > tol) or (not human and bs(m) > capb + tol):
            bad.append("month %d biofuel %r vs %r" % (m, bs(m), capb))
        if not human and m > 0 and fs(m) > fs(m - 1) + 1e-6 * (1 + fs(m - 1)):
            bad.append("month %d: feed drawn rises from %r to %r in the feed round" % (m, fs(m - 1), fs(m)))
        if m >= k and (fs(m) > 1e-6 or bs(m) > 1e-6):
            bad.append("month %d >= shut-off month %d still draws feed %r / biofuel %r" % (m, k, fs(m), bs(m)))
    if not human and "pins" in vals:
        pinmap = dict(outdoor_crops=("crops_food_to_humans", 1.0, "OUTDOOR_GROWING"), stored_food=("stored_food_to_humans", 1.0, "STORED_FOOD"), meat=("meat_eaten", 1.0, "MEAT"),
                      methane_scp=("methane_scp_to_humans", 1.0, "METHANE_SCP"), cellulosic_sugar=("cellulosic_sugar_to_humans", 1.0, "CELLULOSIC_SUGAR"), seaweed=("seaweed_to_humans", Kk, "SEAWEED"))
        for food, (key, ratio, flag) in pinmap.items():
            if cfg["flags"].get(flag):
                for m in range(N):
                    pin = vals["pins"][food][m]
                    if g(key, m) * ratio < (1 - 1e-4) * pin - 1e-9:
                        bad.append("month %d: people get %r of %s in the feed round, pinned minimum %r" % (m, g(key, m) * ratio, food, pin))
    return dict(reproduced=bool(bad), what="CBC's allocation: " + "; ".join(bad[:3]) if bad else "CBC's optimum respects the schedule on this instance", inputs=dict(case=case, supplies=vals),
                key="lp/" + ("after shut-off" if any("shut-off" in b for b in bad) else ("pinned minimum not kept" if any("pinned minimum" in b for b in bad) else ("feed rises" if any("rises" in b for b in bad) else "charge mismatch"))))


def worker_handoff(case, seed):
    if case["which"] == "final_round_charge":
        return C05.worker(case["case"], seed)
    return C18.worker_minneeds(case["case"], seed)


def replay_handoff(case, cx):
    case = case if isinstance(case, dict) else json.loads(case)
    if case["which"] == "final_round_charge":
        return C05.replay(case["case"], cx)
    return C18.replay_minneeds(case["case"], cx)


def main(tier, seed, only=None):
    rep = vlib.Report(PID, tier, seed)
    thorough = tier == "thorough"
    sched = []
    for NM in ([48, 120] if not thorough else [48, 60, 72, 84, 96, 108, 120]):
        for f, b in SHUTOFFS:
            sched.append(dict(kind="feed_biofuel", NM=NM, feed=NM if f == "NM" else f, bio=NM if b == "NM" else b))
    full = dict.fromkeys(FLAGS, True)
    core = dict(SEAWEED=False, OUTDOOR_GROWING=True, STORED_FOOD=True, MEAT=True, METHANE_SCP=False, CELLULOSIC_SUGAR=False)
    lp = []
    for N in ([5, 14] if not thorough else [4, 5, 9, 14, 15]):
        for opt in ("to_humans", "to_animals"):
            for store in (True, False):
                for fl in (full, core):
                    for k in sorted({0, 2, min(12, N - 1), N}):
                        if N == 14 and fl is full and not thorough and k not in (2, 12):
                            continue
                        lp.append(dict(N=N, opt=opt, store=store, flags=fl, shutoff=k))
    # the feed round's pin window depends on the population (looser under 10 million): both sides of that branch, large and small pinned amounts
    for pop in (5e5, 9.9e6, 8e9):
        for store in (True, False):
            lp.append(dict(N=5, opt="to_animals", store=store, flags=full, shutoff=2, pop=pop))
    hand = [dict(which="final_round_charge", case=dict(kind="round3", country="ARG", N=12, herd=["pig", "meat_cattle"], round2_skipped=True)),
            dict(which="final_round_charge", case=dict(kind="round1", country="ARG", N=12, herd=["chicken", "meat_cattle", "milk_cattle"])),
            dict(which="pinned_minimum", case=dict(N=1, foods=["fish", "meat", "outdoor_crops", "stored_food", "seaweed"], validators=False)),
            dict(which="pinned_minimum", case=dict(N=2, foods=["meat", "outdoor_crops"], validators=False))]
    if thorough:
        # the final round with a feed round before it (quick tier: C05 runs this case; here it doubled the run time and one branch query came back unknown under load)
        hand.append(dict(which="final_round_charge", case=dict(kind="round3", country="ARG", N=2, herd=["meat_cattle", "milk_cattle"])))
        hand.append(dict(which="pinned_minimum", case=dict(N=1, foods=C18.FOODS, validators=False)))
    groups = [
        dict(name="demand_schedule_zero_from_shutoff_month", fn="worker_schedule", cases=sched, replay=C08.replay_series,
             functions=["FeedAndBiofuels.__init__", "get_biofuels_and_feed_from_delayed_shutoff", "get_feed_usage", "get_biofuel_usage"], bounds="the (feed, biofuel) shut-off months of all seven documented options x horizons",
             symbolic="annual feed and biofuel baselines (kcals, fat, protein)", assumptions=["baselines >= 0"], stubs=["as C08"], outside=[]),
        dict(name="lp_feed_and_biofuel_follow_the_charge", fn="worker_lp", cases=lp, replay=replay_lp,
             functions=["Optimizer.add_feed_biofuel_to_model", "get_feed_sum", "get_biofuel_sum", "add_percentage_intake_constraints", "assign_predetermined_human_consumption_of_foods", "and the rest of the builder (as C01)"],
             bounds="N in {5,14} (thorough 4..15); both round types; storage on/off; two flag sets; shut-off month k in {0, 2, 12, N}; populations 5e7, and 5e5 / 9.9e6 / 8e9 for the feed round at N=5", symbolic="all supplies, charges / ceilings (zero from month k), pins, LP variables",
             assumptions=["epsilon-relaxed entailment 1e-9", "coefficients concrete"], stubs=["lpsym/standin.py"], outside=["horizons beyond the bound"]),
        dict(name="hand_offs_between_rounds", fn="worker_handoff", cases=hand, replay=replay_handoff, functions=["Parameters.compute_parameters_third_round", "init_meat_and_dairy_and_feed_from_breeding_and_subtract_feed_biofuels_round1",
                                                                                                                 "calculate_human_consumption_for_min_needs"],
             bounds="small cases of the C05 / C18 harnesses", symbolic="see C05, C18", assumptions=["see C05, C18"], stubs=["see C05, C18"],
             outside=["'final percent fed >= no-feed percent fed' and '>= threshold whenever round 1 reaches it': relations between three dependent CBC optima through the herd simulation - no encoding within reach (DESIGN C03)"]),
    ]
    from harness import glue as GL
    groups.append(dict(GL.GROUP, cases=[dict(N=2)] + ([dict(N=3)] if thorough else [])))
    vlib.run_groups(rep, MOD, groups, seed, only)
    return rep.finish()


def replay_file(path):
    rec = json.load(open(path))
    print(json.dumps(rec, indent=1)[:3000])
    return 0
