"""C05 Meat and milk offered to the optimiser match the simulated herds and feed.

SYMX on the real Parameters.init_meat_and_dairy_and_feed_from_breeding / calculate_meat_from_feed_results / calculate_non_meat_and_dairy_from_feed_results /
compute_parameters_third_round / init_meat_and_dairy_and_feed_from_breeding_and_subtract_feed_biofuels_round1, CalculateFeedAndMeat.get_meat_produced /
get_total_milk_bearing_animals, MeatAndDairy.* with the herd simulation replaced by a stub whose monthly slaughter counts, herd sizes and feed use are symbolic.
"""
import contextlib
import copy
import io
import json
import types
import numpy as np
import z3

import vlib
from symx.engine import Engine, SymReal, SymBool, zsum, close, sb, implies, conj
from symx.npproxy import patched, STUBS
from lpsym import capture as CP

PID = "C05"
MOD = "harness.C05_meat_milk"
REL = 1e-9
HERD = [("chicken", "small", "meat"), ("pig", "medium", "meat"), ("rabbit", "small", "meat"), ("duck", "small", "meat"), ("meat_sheep", "medium", "meat"),
        ("meat_cattle", "large", "meat"), ("milk_cattle", "large", "milk"), ("milk_goat", "medium", "milk")]
# documented per-kg energy by size class and default carcass weights (meat_and_dairy.py tables)
KCAL_PER_KG = dict(small=1525, medium=3590, large=2750)
KG_DEFAULT = dict(small=2.36, medium=24.6, large=269.7)
MILK_KCAL_PER_KG = 610


def _mods():
    import src.optimizer.parameters as pm
    import src.food_system.meat_and_dairy as md
    import src.food_system.food as fd
    import src.food_system.unit_conversions as uc
    import src.food_system.animal_populations as ap
    import src.food_system.feed_and_biofuels as fb
    return pm, md, fd, uc, ap, fb


_CI = {}


def real_inputs(country):
    """constants_inputs of a real run of `country` (and the nutrition settings it leaves in Food.conversions)"""
    if country not in _CI:
        import yaml
        sims = yaml.safe_load(open(vlib.REPO + "/scenarios/argentina.yaml"))["simulations"]
        rounds, res = CP.capture_country(country, list(sims.values())[1], 48)
        import src.food_system.food as fd
        _CI[country] = (copy.deepcopy(rounds[0].consts["inputs"]), fd.Food.conversions.__dict__.copy())
    ci, conv = _CI[country]
    import src.food_system.food as fd
    fd.Food.conversions.__dict__.clear()
    fd.Food.conversions.__dict__.update(conv)
    return copy.deepcopy(ci)


def kcal_per_head(ci, animal_type, size):
    if animal_type == "chicken":
        return ci["KG_MEAT_PER_CHICKEN"] * KCAL_PER_KG["small"] / 1e9
    if animal_type == "pig":
        return ci["KG_MEAT_PER_PIG"] * KCAL_PER_KG["medium"] / 1e9
    kg = dict(KG_DEFAULT)
    if "kg_meat_per_large_animal" in ci:
        kg["large"] = ci["kg_meat_per_large_animal"]
    return kg[size] * KCAL_PER_KG[size] / 1e9


def stub_herd(ap, fd, V, N, herd, feed_used=None):
    """a CalculateFeedAndMeat whose simulation output is symbolic (the real get_meat_produced / get_total_milk_bearing_animals run on it)"""
    o = object.__new__(ap.CalculateFeedAndMeat)
    animals = []
    for i, (t, size, fn) in enumerate(herd):
        # every herd slaughters > 0 each month except the last herd in the last month: the code tests "any meat at all?" per herd and month
        # (also for the plotting dictionary), which would otherwise fork 2^(herds x months) ways; the zero branch is exercised once
        a = types.SimpleNamespace(animal_type=t, animal_size=size, animal_function=fn, slaughter=[V("slaughter_%s_%d" % (t, m), (0 if (i == len(herd) - 1 and m == N - 1) else 1e-3), 1e9) for m in range(N)],
                                  population=[V("population_%s_%d" % (t, m), 0, 1e10) for m in range(N)])
        animals.append(a)
    o.all_animals = animals
    fu = feed_used if feed_used is not None else [V("herd_feed_used_%d" % m, 0, 1e6) for m in range(N)]
    o.feed_used = fd.Food(np.array(fu, dtype=object), np.array([0.0] * N, dtype=object), np.array([0.0] * N, dtype=object), "billion kcals each month", "thousand tons each month", "thousand tons each month")
    o.grass_used = fd.Food(np.array([0.0] * N, dtype=object), np.array([0.0] * N, dtype=object), np.array([0.0] * N, dtype=object), "billion kcals each month", "thousand tons each month", "thousand tons each month")
    return o


def rows_supply(case, V):
    """(label, kind, got, want) rows for the meat / milk supply handed to the optimiser"""
    pm, md, fd, uc, ap, fb = _mods()
    ci = real_inputs(case["country"])
    N = case["N"]
    ci["NMONTHS"] = N
    if case.get("large_override"):
        ci["kg_meat_per_large_animal"] = case["large_override"]
    ci["ADD_MILK"] = case.get("add_milk", True)
    herd = [h for h in HERD if h[0] in case["herd"]]
    fmo = stub_herd(ap, fd, V, N, herd)
    mad = md.MeatAndDairy(ci)
    mad.initialize_this_country_animal_kcals(ci)
    fab = fb.FeedAndBiofuels(ci)
    fab.get_biofuels_and_feed_from_delayed_shutoff(ci)
    with contextlib.redirect_stdout(io.StringIO()):
        feed_used, meat_dict, tc, co = pm.Parameters().init_meat_and_dairy_and_feed_from_breeding(ci, fmo, fab, mad, {}, {})
    dist = 1 - ci["WASTE_DISTRIBUTION"]["MEAT"] / 100
    out = []
    run = 0
    tot = 0
    for m in range(N):
        want = zsum([a.slaughter[m] * kcal_per_head(ci, a.animal_type, a.animal_size) for a in fmo.all_animals if a.animal_function == "meat"]) * dist
        # dairy animals that are slaughtered also yield meat of their size class
        want = want + zsum([a.slaughter[m] * kcal_per_head(ci, a.animal_type, a.animal_size) for a in fmo.all_animals if a.animal_function == "milk"]) * dist
        out.append(("meat energy of the month = sum over herds of slaughter x per-head yield x (1 - distribution waste)", "eq", tc["each_month_meat_slaughtered"].kcals[m], want))
        run = run + want
        tot = tot + want
        out.append(("running meat total = cumulative monthly meat", "eq", tc["max_consumed_culled_kcals_each_month"][m], run))
        milk_tons = zsum([a.population[m] for a in fmo.all_animals if "milk" in a.animal_type]) * ci["MILK_YIELD_KG_PER_MILK_BEARING_ANIMAL_PER_YEAR"] / 12 / 1000
        wmilk = milk_tons * 1e3 * MILK_KCAL_PER_KG / 1e9 * (1 - ci["WASTE_DISTRIBUTION"]["MILK"] / 100) * (1 - ci["WASTE_RETAIL"] / 100)
        out.append(("milk energy of the month = milking-herd size x yield / 12 x 610 kcal/kg x (1 - distribution waste)(1 - retail waste)", "eq", tc["milk_kcals"][m], wmilk if case.get("add_milk", True) else 0))
        out.append(("feed reported as used = the herd simulation's feed use", "eq", feed_used.kcals[m], fmo.feed_used.kcals[m]))
    out.append(("meat total over the horizon = sum of monthly meat", "eq", co["meat_summed_consumption"], tot))
    out.append(("one value per month", "true", len(tc["each_month_meat_slaughtered"].kcals) == N and len(tc["milk_kcals"]) == N and len(tc["max_consumed_culled_kcals_each_month"]) == N, True))
    return out


def rows_round3(case, V):
    """third-round wiring: the herd runs on what round 2 found (x 0.999999999), the charge is never below what the herd ate and never above demand."""
    pm, md, fd, uc, ap, fb = _mods()
    ci = real_inputs(case["country"])
    N = case["N"]
    ci["NMONTHS"] = max(24, N)      # only MeatAndDairy's grass series reads it here (needs >= 12); every series handed in has length N
    herd = [h for h in HERD if h[0] in case["herd"]]
    mk = lambda vals, u="billion kcals each month": fd.Food(np.array(list(vals), dtype=object), np.array([0.0] * N, dtype=object), np.array([0.0] * N, dtype=object), u,
                                                           "thousand tons each month" if "billion" in u else "effective kcals per person per day each month",
                                                           "thousand tons each month" if "billion" in u else "effective kcals per person per day each month")
    kc = "kcals per person per day each month"
    feed_demand = mk([V("feed_demand_%d" % m, 0, 1e6) for m in range(N)])
    bio_demand = mk([V("biofuel_demand_%d" % m, 0, 1e6) for m in range(N)])
    pop = fd.Food.conversions.population
    to_bk = lambda x: x * 30 * pop / 1e9          # kcal/person/day -> billion kcals per month
    skipped = case.get("round2_skipped", False)
    r2_feed = [V("round2_feed_kcal_pp_%d" % m, 0, 1e4) for m in range(N)]
    r2_bio = [V("round2_biofuel_kcal_pp_%d" % m, 0, 1e4) for m in range(N)]
    ir2 = types.SimpleNamespace(feed_sum_kcals_equivalent=mk(r2_feed, kc), biofuels_sum_kcals_equivalent=mk(r2_bio if not skipped else [0.0] * N, kc))
    ir1 = None if skipped else types.SimpleNamespace(immediate_outdoor_crops_kcals_equivalent=mk([V("r1_immediate_%d" % m, 0, 1e4) for m in range(N)], kc),
                                                     new_stored_outdoor_crops_kcals_equivalent=mk([V("r1_new_stored_%d" % m, 0, 1e4) for m in range(N)], kc),
                                                     stored_food_kcals_equivalent=mk([V("r1_stored_%d" % m, 0, 1e4) for m in range(N)], kc))
    recorded = {}

    class StubCFM(ap.CalculateFeedAndMeat):
        def __init__(self, country_code, available_feed, available_grass, scenario, kcals_per_head_meat_dict, constants_inputs=None):
            recorded["available_feed"] = available_feed
            recorded["wiring"] = (country_code, scenario, constants_inputs)
            avail = available_feed.kcals
            used = []
            for m in range(N):
                u = V("herd_feed_used_%d" % m, 0, 1e6)
                used.append(u)
            s = stub_herd(ap, fd, V, N, herd, feed_used=used)
            self.all_animals, self.feed_used, self.grass_used = s.all_animals, s.feed_used, s.grass_used
            recorded["used"] = used
            recorded["avail"] = avail
    # round-1 objects (zero feed)
    fmo1 = stub_herd(ap, fd, lambda n, lo, hi: V("r1_" + n, lo, hi), N, herd, feed_used=[0.0] * N)
    mad = md.MeatAndDairy(ci)
    mad.initialize_this_country_animal_kcals(ci)
    fab = fb.FeedAndBiofuels(ci)
    fab.get_biofuels_and_feed_from_delayed_shutoff(ci)
    with contextlib.redirect_stdout(io.StringIO()):
        fu1, md1, tc1, co1 = pm.Parameters().init_meat_and_dairy_and_feed_from_breeding(ci, fmo1, fab, mad, {}, {})
    tc1["feed"], tc1["biofuel"] = mk([0.0] * N), mk([0.0] * N)
    tc2 = None if skipped else dict(tc1)
    with patched(pm, extra={(pm, "CalculateFeedAndMeat"): StubCFM}, np=False), contextlib.redirect_stdout(io.StringIO()):
        co3, tc3, fab3, md3 = pm.Parameters().compute_parameters_third_round(ci, co1, co1, tc1, tc2, ir1, ir2, fab, feed_demand, bio_demand, fmo1)
    out = []
    for m in range(N):
        feed3, bio3 = tc3["feed"].kcals[m], tc3["biofuel"].kcals[m]
        if not skipped and m == 0:
            w = recorded["wiring"]
            out.append(("the herd simulation of every round is built for the run's country, breeding strategy and inputs (head-count and yield overrides travel in the inputs)", "true",
                        w[0] == ci["COUNTRY_CODE"] and w[1] == ci["BREEDING_STRATEGY"] and w[2] is ci, True))
        if not skipped:
            out.append(("the herd of the final round is offered exactly the feed round 2 found (x 0.999999999)", "eq", recorded["avail"][m], to_bk(r2_feed[m]) * 0.999999999))
            out.append(("feed charged in the final round >= feed the simulated herd ate", "ge", feed3, recorded["used"][m]))
            out.append(("feed charged in the final round <= demand schedule", "le", feed3, feed_demand.kcals[m]))
            out.append(("biofuel charged in the final round >= biofuel found in round 2", "ge", bio3, to_bk(r2_bio[m])))
            out.append(("biofuel charged in the final round <= demand schedule", "le", bio3, bio_demand.kcals[m]))
        else:
            out.append(("round 2 skipped: the final round charges no feed", "eq", feed3, 0))
            out.append(("round 2 skipped: the final round charges no biofuel", "eq", bio3, 0))
            out.append(("round 2 skipped: herds of the final round are the no-feed herds", "true", "available_feed" not in recorded, True))
        out.append(("non-human consumption = feed + biofuel charged", "eq", tc3["nonhuman_consumption"].kcals[m], feed3 + bio3))
    return out, recorded


class _Stop(Exception):
    pass


def rows_round2(case, V):
    """the feed round's herd: built for the run's country / strategy / inputs and offered the demand schedule (cut after the herd simulation is constructed)"""
    pm, md, fd, uc, ap, fb = _mods()
    ci = real_inputs(case["country"])
    N = case["N"]
    ci["NMONTHS"] = N
    recorded = {}

    herd = [h for h in HERD if h[0] in case["herd"]]
    full = bool(herd)          # with a herd: run on past the herd simulation, up to the point where the round-1 result is read

    class StubCFM(ap.CalculateFeedAndMeat):
        def __init__(self, country_code, available_feed, available_grass, scenario, kcals_per_head_meat_dict, constants_inputs=None):
            recorded["available_feed"] = available_feed
            recorded["wiring"] = (country_code, scenario, constants_inputs)
            if not full:
                raise _Stop()
            s = stub_herd(ap, fd, lambda n, lo, hi: V("r2_" + n, lo, hi), case["NS"], herd, feed_used=[V("r2_herd_feed_used_%d" % m, 0, 1e6) for m in range(case["NS"])])
            self.all_animals, self.feed_used, self.grass_used = s.all_animals, s.feed_used, s.grass_used

    class _ReadsRound1:
        """stands for the round-1 result: the first attribute the code reads from it ends the run (everything checked here happens before)"""
        def __getattr__(self, name):
            raise _Stop()
    fab = fb.FeedAndBiofuels(ci)
    bio_demand, feed_demand = fab.get_biofuels_and_feed_from_delayed_shutoff(ci)
    co1, tc1 = {}, {}
    if full:
        NS = case["NS"]
        fmo1 = stub_herd(ap, fd, lambda n, lo, hi: V("r1_" + n, lo, hi), NS, herd, feed_used=[0.0] * NS)
        mad = md.MeatAndDairy(ci)
        mad.initialize_this_country_animal_kcals(ci)
        with contextlib.redirect_stdout(io.StringIO()):
            fu1, md1, tc1, co1 = pm.Parameters().init_meat_and_dairy_and_feed_from_breeding(ci, fmo1, fab, mad, {}, {})
    frame_locals = {}
    with patched(pm, extra={(pm, "CalculateFeedAndMeat"): StubCFM}, np=False), contextlib.redirect_stdout(io.StringIO()):
        try:
            pm.Parameters().compute_parameters_second_round(ci, co1, tc1, _ReadsRound1() if full else None)
        except _Stop as e:
            tb = e.__traceback__
            while tb is not None:
                if tb.tb_frame.f_code.co_name == "compute_parameters_second_round":
                    frame_locals = dict(tb.tb_frame.f_locals)
                tb = tb.tb_next
    out = []
    if full:
        t2 = frame_locals.get("time_consts_round2")
        if not frame_locals:
            return [("feed round aborted by the code (less meat with feed than without): nothing is handed over", "true", True, True)]
        out.append(("the feed round's parameters were computed up to the hand-over", "true", t2 is not None and "max_consumed_culled_kcals_each_month" in t2, True))
        if t2 is not None and "max_consumed_culled_kcals_each_month" in t2:
            acc = 0
            for m in range(case["NS"]):
                acc = acc + t2["each_month_meat_slaughtered"].kcals[m]
                out.append(("feed round: the running meat total handed to the optimiser is the cumulative re-timed slaughter of THAT round", "eq", t2["max_consumed_culled_kcals_each_month"][m], acc))
        return out
    for m in range(N):
        out.append(("the feed round offers its herds the feed demand schedule", "eq", recorded["available_feed"].kcals[m], feed_demand.kcals[m]))
    w = recorded["wiring"]
    out.append(("the herd simulation of every round is built for the run's country, breeding strategy and inputs (head-count and yield overrides travel in the inputs)", "true",
                w[0] == ci["COUNTRY_CODE"] and w[1] == ci["BREEDING_STRATEGY"] and w[2] is ci, True))
    return out


def rows_round1(case, V):
    """a round that charges no feed runs its herds on no feed (round 1)"""
    pm, md, fd, uc, ap, fb = _mods()
    ci = real_inputs(case["country"])
    N = case["N"]
    ci["NMONTHS"] = N
    herd = [h for h in HERD if h[0] in case["herd"]]
    recorded = {}

    class StubCFM(ap.CalculateFeedAndMeat):
        def __init__(self, country_code, available_feed, available_grass, scenario, kcals_per_head_meat_dict, constants_inputs=None):
            recorded["available_feed"] = available_feed
            recorded["available_grass"] = available_grass
            recorded["wiring"] = (country_code, scenario, constants_inputs)
            # C07: the herd never uses more feed than it is offered
            s = stub_herd(ap, fd, V, N, herd, feed_used=[0.0 * float(x) for x in available_feed.kcals])
            self.all_animals, self.feed_used, self.grass_used = s.all_animals, s.feed_used, s.grass_used
    with patched(pm, extra={(pm, "CalculateFeedAndMeat"): StubCFM}, np=False), contextlib.redirect_stdout(io.StringIO()):
        r = pm.Parameters().init_meat_and_dairy_and_feed_from_breeding_and_subtract_feed_biofuels_round1({}, ci, {})
    co, tc = r[0], r[1]
    out = []
    for m in range(N):
        out.append(("round 1 offers its herds no feed", "eq", recorded["available_feed"].kcals[m], 0))
        out.append(("round 1 charges no feed", "eq", tc["feed"].kcals[m], 0))
        out.append(("round 1 charges no biofuel", "eq", tc["biofuel"].kcals[m], 0))
    out.append(("herds are offered the grass series of MeatAndDairy", "true", recorded["available_grass"] is not None, True))
    w = recorded["wiring"]
    out.append(("the herd simulation of every round is built for the run's country, breeding strategy and inputs (head-count and yield overrides travel in the inputs)", "true",
                w[0] == ci["COUNTRY_CODE"] and w[1] == ci["BREEDING_STRATEGY"] and w[2] is ci, True))
    return out


def _check_rows(E, rows):
    for label, kind, got, want in rows:
        if kind == "eq":
            E.check(label, close(got, want, REL, 1e-12))
        elif kind == "ge":
            E.check(label, got >= want * (1 - 1e-9) - 1e-12)
        elif kind == "le":
            E.check(label, got <= want * (1 + 1e-9) + 2e-8)
        else:
            E.check(label, bool(got))


def worker(case, seed):
    pm, md, fd, uc, ap, fb = _mods()
    E = Engine(seed=seed, max_paths=4000, query_timeout_ms=case.get("query_timeout_ms", 120000))
    E.div0_mode = "numpy"
    real_inputs(case["country"])
    saved = fd.Food.conversions.__dict__.copy()

    def h(E):
        def V(name, lo, hi):
            v = E.real(name)
            E.assume(v >= lo)
            E.assume(v <= hi)
            return v
        with patched(pm, md, fd, uc, ap, fb, isinstance_=True):
            if case["kind"] == "supply":
                rows = rows_supply(case, V)
            elif case["kind"] == "round1":
                rows = rows_round1(case, V)
            elif case["kind"] == "round2":
                rows = rows_round2(case, V)
            else:
                rows, rec = rows_round3(case, V)
                if not case.get("round2_skipped"):
                    # environment assumptions decided elsewhere: herd eats <= what it is offered (C07); round 2 stays within the ceilings <= demand (C01, validator)
                    for m in range(case["N"]):
                        E.assume(rec["used"][m] <= rec["avail"][m])
        _check_rows(E, rows)
    try:
        if case["kind"] == "round3" and not case.get("round2_skipped"):
            # assumptions must precede the code they constrain: run with pre-declared relations
            E.explore(lambda E: _round3_path(E, case))
        else:
            E.explore(h)
    finally:
        fd.Food.conversions.__dict__.clear()
        fd.Food.conversions.__dict__.update(saved)
    return E.summary()


def _round3_path(E, case):
    pm, md, fd, uc, ap, fb = _mods()
    N = case["N"]
    pop = fd.Food.conversions.population
    pre = {}

    def V(name, lo, hi):
        if name in pre:
            return pre[name]
        v = E.real(name)
        E.assume(v >= lo)
        E.assume(v <= hi)
        pre[name] = v
        return v
    # declare the related symbols first so that the assumptions precede the code
    for m in range(N):
        fdm, bdm = V("feed_demand_%d" % m, 0, 1e6), V("biofuel_demand_%d" % m, 0, 1e6)
        r2f, r2b = V("round2_feed_kcal_pp_%d" % m, 0, 1e4), V("round2_biofuel_kcal_pp_%d" % m, 0, 1e4)
        used = V("herd_feed_used_%d" % m, 0, 1e6)
        E.assume(r2f * 30 * pop / 1e9 <= fdm)            # round 2 stays within the feed ceiling <= demand
        E.assume(r2b * 30 * pop / 1e9 <= bdm)
        E.assume(used <= r2f * 30 * pop / 1e9 * 0.999999999)   # the herd eats no more than it is offered (C07)
    # assume-guarantee: increase_biofuels_then_feed is decided on its own in C18 (non-linear); here it is replaced by its contract
    # (new >= old, new <= demand + 1e-8 provided old <= demand) and the precondition is checked at the real call site
    def bump_contract(self, biofuel, feed, increase, max_biofuel, max_feed, total_crops_available):
        nb, nf = [], []
        for i in range(len(biofuel)):
            # the values reach the call site through unit conversions: allow a rounding error (1e-9 relative) above the demand
            E.check("call site of the final bump: biofuel found in round 2 <= biofuel demand", biofuel[i] <= max_biofuel[i] * (1 + 1e-9) + 1e-12)
            E.check("call site of the final bump: feed the herd ate <= feed demand", feed[i] <= max_feed[i] * (1 + 1e-9) + 1e-12)
            E.check("call site of the final bump: requested increase >= 0", increase[i] >= 0)
            b2, f2 = E.real("bumped_biofuel_%d" % i), E.real("bumped_feed_%d" % i)
            E.assume(b2 >= biofuel[i])
            E.assume(f2 >= feed[i])
            # C18, case "any": new <= max(old, demand) + 1e-8  (as one formula, no fork)
            L = lambda x: x.z if isinstance(x, SymReal) else z3.RealVal(repr(float(x)))
            tol = z3.RealVal("1/100000000")
            E.assume(SymBool(b2.z <= z3.If(L(max_biofuel[i]) >= L(biofuel[i]), L(max_biofuel[i]), L(biofuel[i])) + tol))
            E.assume(SymBool(f2.z <= z3.If(L(max_feed[i]) >= L(feed[i]), L(max_feed[i]), L(feed[i])) + tol))
            nb.append(b2)
            nf.append(f2)
        return np.array(nb, dtype=object), np.array(nf, dtype=object)
    with patched(pm, md, fd, uc, ap, fb, isinstance_=True, extra={(pm.Parameters, "increase_biofuels_then_feed"): bump_contract}):
        rows, rec = rows_round3(case, V)
    _check_rows(E, rows)


def replay(case, cx):
    pm, md, fd, uc, ap, fb = _mods()
    case = case if isinstance(case, dict) else json.loads(case)
    m = vlib.model_floats(cx["model"])
    real_inputs(case["country"])
    saved = fd.Food.conversions.__dict__.copy()

    def V(name, lo, hi):
        return np.float64(m.get(name, 0.0))
    bad = []
    try:
        with np.errstate(all="ignore"):
            if case["kind"] == "supply":
                rows = rows_supply(case, V)
            elif case["kind"] == "round1":
                rows = rows_round1(case, V)
            elif case["kind"] == "round2":
                rows = rows_round2(case, V)
            else:
                rows, rec = rows_round3(case, V)
    except AssertionError as e:
        return dict(reproduced=False, what="code's own assertion fires: %s" % str(e)[:100])
    finally:
        fd.Food.conversions.__dict__.clear()
        fd.Food.conversions.__dict__.update(saved)
    for label, kind, got, want in rows:
        g, w = (float(got), float(want)) if kind != "true" else (bool(got), True)
        ok = (abs(g - w) <= 1e-7 * abs(w) + 1e-9) if kind == "eq" else ((g >= w - 1e-9) if kind == "ge" else ((g <= w * (1 + 1e-8) + 1e-7) if kind == "le" else g))
        if not ok:
            bad.append("%s: got %r, expected %r" % (label, g, w))
    return dict(reproduced=bool(bad), what="; ".join(bad[:3]), inputs=dict(case=case, values=m), observed=bad[:6], key="%s/%s" % (case["kind"], bad[0].split(":")[0][:60] if bad else ""))


def main(tier, seed, only=None):
    rep = vlib.Report(PID, tier, seed)
    thorough = tier == "thorough"
    allh = [h[0] for h in HERD]
    countries = ["ARG", "USA", "IND"] if thorough else ["ARG", "USA"]
    sup = []
    for c in countries:
        sup.append(dict(kind="supply", country=c, N=12, herd=allh))
        sup.append(dict(kind="supply", country=c, N=13, herd=["chicken", "meat_cattle", "milk_cattle"]))
        sup.append(dict(kind="supply", country=c, N=12, herd=["pig", "rabbit", "meat_sheep", "milk_goat", "meat_cattle"], large_override=300.0, add_milk=False))
    r3 = []
    for c in countries:
        if c != "IND":      # with India's constants one non-linear branch query of the bump came back unknown in two of three thorough runs (400 s limit)
            r3.append(dict(kind="round3", country=c, N=2, herd=["meat_cattle", "milk_cattle"]))
        r3.append(dict(kind="round3", country=c, N=12, herd=["pig", "meat_cattle"], round2_skipped=True))
        r3.append(dict(kind="round1", country=c, N=12, herd=["chicken", "meat_cattle", "milk_cattle"]))
        r3.append(dict(kind="round2", country=c, N=12, herd=[]))
        r3.append(dict(kind="round2", country=c, N=24, NS=2, herd=["meat_cattle", "milk_cattle"]))
    if thorough:
        # the bump's branch conditions are non-linear: one query came back unknown at 120 s when other jobs shared the machine
        r3 = [dict(c, query_timeout_ms=400000) for c in r3]
        sup = [dict(c, query_timeout_ms=400000) for c in sup]
    if thorough:
        pass      # a 4-herd final round does not finish in 25 min even at 2 months (the bump forks ~10 ways per month and herd): the thorough tier adds a country instead
    stubs = STUBS + ["CalculateFeedAndMeat (the herd simulation) replaced by a stub with symbolic monthly slaughter, herd size and feed use; its real get_meat_produced / get_total_milk_bearing_animals run",
                     "interpreted results of rounds 1/2 are namespaces with symbolic series", "food.isinstance accepts SymReal as float", "stdout silenced"]
    groups = [
        dict(name="meat_and_milk_supply_from_herds", fn="worker", cases=sup, replay=replay,
             functions=["Parameters.init_meat_and_dairy_and_feed_from_breeding", "calculate_meat_from_feed_results", "calculate_non_meat_and_dairy_from_feed_results", "CalculateFeedAndMeat.get_meat_produced",
                        "get_total_milk_bearing_animals", "MeatAndDairy.__init__", "initialize_this_country_animal_kcals", "calculate_meat_nutrition", "get_max_slaughter_monthly_after_distribution_waste",
                        "calculate_meat_after_distribution_waste", "get_milk_produced_postwaste", "Food.get_running_total_nutrients_sum", "FeedAndBiofuels.create_feed_food_from_kcals"],
             bounds="N in {12,13} months (the real MeatAndDairy needs >= 12); herd mixes covering every class branch (chicken, pig, small other x2, medium other, large meat, large milk, medium milk); yields and wastes of countries %s" % countries,
             symbolic="monthly slaughter count and herd size of every species, herd feed use", assumptions=["herd sizes >= 0; monthly slaughter counts > 0 except the last herd in the last month, which may be 0 (the per-herd, per-month 'any meat at all?' test would otherwise fork 2^(herds x months) ways)", "per-kg energy and default carcass weights as tabulated in meat_and_dairy.py"], stubs=stubs,
             outside=["that the stubbed simulation output is what animal_populations.main() produces (C06/C07 decide the month step)", "fat/protein series"]),
        dict(name="feed_charge_of_final_round", fn="worker", cases=r3, replay=replay,
             functions=["Parameters.compute_parameters_third_round", "increase_biofuels_then_feed", "init_meat_and_dairy_and_feed_from_breeding_and_subtract_feed_biofuels_round1", "Food.in_units*", "Food.negative_values_to_zero"],
             bounds="series of 2 months for the bump (it forks ~10 ways per month), 12 months for the skipped-round and round-1 cases; countries %s" % countries, symbolic="demand schedules, round-2 feed and biofuel, round-1 crops and stock eaten, herd feed use, slaughter",
             assumptions=["herd feed use <= feed offered (C07)", "round-2 feed/biofuel within demand (C01 ceilings, run-time validator)", "increase_biofuels_then_feed replaced by the contract C18 proves for it (new >= old, new <= demand + 1e-8 if old <= demand); its precondition is an obligation at the real call site"], stubs=stubs,
             outside=["main()'s pandas loading", "the relation between rounds through CBC"]),
    ]
    # the optimiser's side of the offer: whatever series the parameters hand over, the LP lets people eat no more meat than was slaughtered (running total with storage,
    # month by month without) -- the meat clauses of the C01 audit, decided for all supplies
    from harness import C01_allocations as C01
    core = dict(SEAWEED=False, OUTDOOR_GROWING=True, STORED_FOOD=True, MEAT=True, METHANE_SCP=False, CELLULOSIC_SUGAR=False)
    meat_cases = [dict(N=n, opt=o, store=s, flags=core, retail=6.08, clauses="meat") for n in ([5, 14] if not thorough else [5, 9, 14, 15]) for o in ("to_humans", "to_animals") for s in (True, False)]
    groups.append(dict(name="optimiser_eats_no_more_meat_than_offered", fn="harness.C01_allocations:worker_audit", cases=meat_cases, replay=C01.replay_audit,
                       functions=["Optimizer.add_meat_to_model", "add_meat_to_model_no_storage", "and the rest of the builder (as C01)"], bounds="N in {5,14} (thorough 5..15), both round types, storage between years on/off",
                       symbolic="every supply (monthly slaughter, crops, stock, ...) and every LP variable", assumptions=["as C01"], stubs=["lpsym/standin.py"], outside=["horizons beyond the bound"]))
    vlib.run_groups(rep, MOD, groups, seed, only)
    return rep.finish()


def replay_file(path):
    rec = json.load(open(path))
    print(json.dumps(rec, indent=1)[:3000])
    return 0
