"""C15 Aggregate fed fraction is a capped, population-weighted mean of the selection.

SYMX on the real ScenarioRunnerNoTrade.run_model_no_trade with the table reader, the map reader, the per-country data checks and the per-country optimiser
replaced by stubs: populations and per-country fed ratios are symbolic, the selection list is enumerated over all lists of up to three entries over
{A, B, C, !A, !B, !C}.  CrossHair decides the selection rule itself for symbolic entry strings.
"""
import contextlib
import io
import itertools
import json
import os
import types
import numpy as np
import pandas as pd
import z3

import vlib
from symx.engine import Engine, SymReal, SymBool, zsum, close, sb, implies, conj
from symx.npproxy import patched, STUBS
from xhair import runner as XR

PID = "C15"
MOD = "harness.C15_aggregate"
HERE = os.path.dirname(os.path.dirname(os.path.abspath(__file__)))
CODES = ["AAA", "BBB", "CCC"]
NAMES = dict(AAA="Aland", BBB="Bland", CCC="Cland")


def _mods():
    import src.scenarios.run_model_no_trade as rm
    return rm


def _selected(lst):
    if len(lst) == 0:
        return list(CODES)
    if all("!" in c for c in lst):
        skip = [c.replace("!", "") for c in lst]
        return [c for c in CODES if c not in skip]
    run = [c for c in lst if "!" not in c]
    return [c for c in CODES if c in run]


MAPPED = ["AAA", "BBB"]          # CCC is a table country that the low-resolution map does not have (like BHR, BRB, CPV, MUS, SGP, MLT in the shipped data)


class _World:
    """stands for the geopandas map table; the REAL fill_data_for_map runs against it: world["iso_a3"].apply(f), world[mask] (len, .index), world.loc[index, column] = value"""

    def __init__(self):
        self.iso = list(MAPPED) + ["-99"]
        self.name = np.array(["Aland", "Bland", "France"])
        self.needs = {}
        outer = self

        class Loc:
            def __setitem__(self, key, value):
                idx, col = key
                if col == "iso_a3":
                    for i, b in enumerate(idx):
                        if b:
                            outer.iso[i] = value
                else:
                    for i in idx:
                        outer.needs.setdefault(col, {})[i] = value
        self.loc = Loc()

    def __getitem__(self, key):
        if isinstance(key, str):
            vals = list(self.iso)
            return types.SimpleNamespace(apply=lambda f: [f(x) for x in vals])
        rows = [i for i, b in enumerate(key) if b]
        return _Rows(rows)


class _Rows:
    def __init__(self, rows):
        self.index = rows

    def __len__(self):
        return len(self.index)


class _Table:
    """stands for the pandas table: iterrows() yields (index, row) with row[...] access"""

    def __init__(self, rows):
        self.rows = rows

    def iterrows(self):
        return iter(enumerate(self.rows))


def _run(rm, pops, ratios, sel, before=None, option=None):
    """one call of run_model_no_trade; with `before`, an earlier call with that selection is made on the SAME runner object first (run_many_options does that)"""
    rows = [dict(iso3=c, country=NAMES[c], population=pops[c]) for c in CODES]
    calls = []

    class Runner(rm.ScenarioRunnerNoTrade):
        # apply_custom_parameters is the real one: a scenario option named like a column of the table (e.g. `population`) overrides the row for the run

        def verify_country_data(self, country_data):
            return None

        def run_optimizer_for_country(self, country_data, *a, **k):
            calls.append(country_data["iso3"])
            return ratios[country_data["iso3"]], "stub", "result of " + country_data["iso3"]
    W = lambda: _World()
    # the country table is a real pandas DataFrame (3 rows; the population cells hold the symbolic values), so that whatever the code does with the table
    # (iterrows, merges, filters) runs for real
    fake_pd = types.SimpleNamespace(read_csv=lambda *a, **k: pd.DataFrame(rows, dtype=object), DataFrame=pd.DataFrame)
    fake_gpd = types.SimpleNamespace(read_file=lambda *a, **k: W(), datasets=types.SimpleNamespace(get_path=lambda n: n))
    ident = lambda x, *a: x if isinstance(x, SymReal) else float(x)
    rnd = lambda x, n=None: x if isinstance(x, SymReal) else round(x, n)
    with patched(rm, extra={(rm, "pd"): fake_pd, (rm, "gpd"): fake_gpd, (rm, "float"): ident, (rm, "round"): rnd}), contextlib.redirect_stdout(io.StringIO()):
        runner = Runner()
        if before is not None:
            runner.run_model_no_trade(title="vp_c15_earlier", create_pptx_with_all_countries=False, show_country_figures=False, show_map_figures=False, add_map_slide_to_pptx=False,
                                      scenario_option=dict(option or {"any": 1}), countries_list=list(before), return_results=True)
            del calls[:]
        out = runner.run_model_no_trade(title="vp_c15", create_pptx_with_all_countries=False, show_country_figures=False, show_map_figures=False, add_map_slide_to_pptx=False,
                                        scenario_option=dict(option or {"any": 1}), countries_list=list(sel), return_results=True)
    return out, calls


def worker_aggregate(case, seed):
    rm = _mods()
    sel = case["sel"]
    E = Engine(seed=seed, max_paths=500)
    E.prune_on = ()

    def h(E):
        pops = {c: E.real("population_" + c) for c in CODES}
        ratios = {c: E.real("fed_ratio_" + c) for c in CODES}
        for c in CODES:
            E.assume(pops[c] > 10000)
            E.assume(pops[c] < 1e10)
            E.assume(ratios[c] >= 0)
            E.assume(ratios[c] <= 50)
        before = list(sel)
        option = None
        if case.get("custom_population"):
            # the scenario carries a custom `population`: the run of every country sees that population, and so must the totals
            cp = E.real("custom_population")
            E.assume(cp > 10000)
            E.assume(cp < 1e10)
            option = {"any": 1, "population": cp}
        (world, net_pop, net_fed, results), calls = _run(rm, pops, ratios, sel, before=case.get("before"), option=option)
        if option:
            pops = {c: option["population"] for c in CODES}
        chosen = _selected(before)
        E.check("the optimiser ran exactly once for exactly the selected countries", calls == chosen, info="%s vs %s" % (calls, chosen))
        E.check("every selected country appears exactly once in the results", sorted(results.keys()) == sorted(NAMES[c] for c in chosen) and all(results[NAMES[c]] == "result of " + c for c in chosen))
        E.check("population total = sum over the selection", net_pop == zsum([pops[c] for c in chosen]))
        capped = []
        for c in chosen:
            r = ratios[c]
            capped.append(pops[c] * (r if (r <= 1) else 1))
        E.check("people fed = sum of population x min(1, fraction fed)", net_fed == zsum(capped))
        shown = world.needs.get("needs_ratio", {})
        E.check("the map shows min(1, fraction fed) for exactly the selected countries it has", sorted(shown.keys()) == sorted(MAPPED.index(c) for c in chosen if c in MAPPED)
                and conj([sb(shown[MAPPED.index(c)] == (ratios[c] if (ratios[c] <= 1) else 1)) for c in chosen if c in MAPPED]))
        E.check("0 <= people fed <= population (aggregate fraction within [0, 1])", conj([sb(net_fed >= 0), sb(net_fed <= net_pop)]))
        E.check("the caller's selection list is not modified", list(sel) == before)
    E.explore(h)
    return E.summary()


def replay_aggregate(case, cx):
    rm = _mods()
    case = case if isinstance(case, dict) else json.loads(case)
    m = vlib.model_floats(cx["model"])
    pops = {c: m.get("population_" + c, 20000.0) for c in CODES}
    ratios = {c: m.get("fed_ratio_" + c, 0.5) for c in CODES}
    option = {"any": 1, "population": m.get("custom_population", 123456.0)} if case.get("custom_population") else None
    (world, net_pop, net_fed, results), calls = _run(rm, pops, ratios, case["sel"], before=case.get("before"), option=option)
    if option:
        pops = {c: option["population"] for c in CODES}
    chosen = _selected(case["sel"])
    bad = []
    if calls != chosen:
        bad.append("ran %s, selection is %s" % (calls, chosen))
    if sorted(results.keys()) != sorted(NAMES[c] for c in chosen):
        bad.append("results has %s" % sorted(results.keys()))
    wp = sum(pops[c] for c in chosen)
    wf = sum(pops[c] * min(1.0, ratios[c]) for c in chosen)
    if abs(net_pop - wp) > 1e-6 * (1 + wp):
        bad.append("population total %r, expected %r" % (net_pop, wp))
    if abs(net_fed - wf) > 1e-6 * (1 + wf):
        bad.append("people fed %r, expected %r" % (net_fed, wf))
    return dict(reproduced=bool(bad), what="run_model_no_trade(countries_list=%s): %s" % (case["sel"], "; ".join(bad)), inputs=dict(case=case, populations=pops, ratios=ratios),
                observed=dict(net_pop=float(net_pop), net_pop_fed=float(net_fed), results=sorted(results.keys())), key="aggregate/" + (bad[0].split(",")[0][:30] if bad else ""))


def main(tier, seed, only=None):
    rep = vlib.Report(PID, tier, seed)
    thorough = tier == "thorough"
    if not only or "selection_rule" in only:
        path = os.path.join(HERE, "xhair", "c15_selection.py")
        res = XR.run(path, timeout=200 if not thorough else 600, repo=vlib.REPO)
        results = []
        for r in res:
            name = "selection rule (empty / inclusion / exclusion / mixed) for symbolic entries"
            ob = {name: dict(unsat=0, sat=0, unknown=0)}
            cex, errors = [], []
            if r["status"] == "confirmed":
                ob[name]["unsat"] += 1
            elif r["status"] == "counterexample":
                ob[name]["sat"] += 1
                cex.append(dict(obligation=name, model={}, info=r["call"], func=r["func"], path=path))
            else:
                ob[name]["unknown"] += 1
                errors.append("crosshair: %s" % r["message"][:300])
            results.append(dict(case=r["func"], wall_s=r["wall_s"], stats=dict(paths=1, completed=1, queries=1, solver_s=r["wall_s"], branches=0, unsat=ob[name]["unsat"], sat=ob[name]["sat"], unknown=ob[name]["unknown"],
                                                                               pruned_by_code_assertions=0, pruned_other=0), obligations=ob, cex=cex, errors=errors, canary_bad=0))

        def rp(case, cx):
            ok, detail = XR.replay_call(cx["path"], cx["info"], repo=vlib.REPO)
            return dict(reproduced=ok, what="%s -> %s" % (cx["info"], detail), key="selection/rule")
        rep.add_group("selection_rule", results, functions=["ScenarioRunnerNoTrade.get_countries_to_run_and_skip"], bounds="lists of <= 2 symbolic entries (any string of <= 2 characters), and lists of 3 entries with one symbolic entry in any position and the other two from {A, !A, B, !C}; 3 one-letter country codes",
                      symbolic="the entries of countries_list", assumptions=[], stubs=["none"], outside=["three symbolic entries at once (CrossHair: not confirmed in 150 s)", "longer lists / codes"], replay=rp)
    entries = CODES + ["!" + c for c in CODES]
    sels = [[]] + [list(t) for n in (1, 2, 3) for t in itertools.product(entries, repeat=n)]
    if not thorough:
        sels = [s for s in sels if len(s) <= 2] + [["AAA", "BBB", "CCC"], ["!AAA", "!BBB", "!CCC"], ["AAA", "!BBB", "CCC"], ["!AAA", "AAA", "!CCC"], ["BBB", "BBB", "BBB"], ["!CCC", "!CCC", "AAA"]]
    groups = [dict(name="aggregate_over_selection", fn="worker_aggregate", cases=[dict(sel=s) for s in sels] + [dict(sel=s, custom_population=True) for s in ([], ["AAA", "CCC"], ["!BBB"])] + [dict(sel=s, before=b) for s, b in ((["AAA"], ["BBB", "CCC"]), ([], ["CCC"]), (["!AAA"], []), (["BBB", "!CCC"], ["AAA"]), (["CCC"], ["CCC"]))], replay=replay_aggregate,
                   functions=["ScenarioRunnerNoTrade.run_model_no_trade", "get_countries_to_run_and_skip", "fill_data_for_map"], bounds="3-row table; %d selection lists over {A,B,C,!A,!B,!C} (all lists of <= 2 entries, thorough all of <= 3); 5 histories of two calls on the same runner object" % len(sels),
                   symbolic="the three populations (10^4..10^10) and the three per-country fed ratios (0..50)", assumptions=["per-country data checks pass (stubbed)", "the per-country optimiser returns a finite ratio"],
                   stubs=STUBS[:2] + ["pd.read_csv -> 3-row table object", "gpd.read_file -> stub", "verify_country_data -> no-op (apply_custom_parameters is the real one; 3 cases carry a symbolic custom population)", "the map table is a 3-row stand-in (two of the three countries are on the map, one is not); the real fill_data_for_map runs against it", "run_optimizer_for_country -> symbolic ratio",
                                      "float()/round() in run_model_no_trade shadowed to keep symbolic values (only the printed fraction uses them)"], outside=["the real 164-row table", "NaN ratios (error path)"])]
    vlib.run_groups(rep, MOD, groups, seed, only)
    return rep.finish()


def replay_file(path):
    rec = json.load(open(path))
    print(json.dumps(rec, indent=1)[:3000])
    return 0
