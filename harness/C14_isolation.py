"""C14 A run's result depends only on its own inputs  (PARTIAL: the mechanism that carries state between runs, decided by self-composition).

The only process-wide mutable state of the model is the class-level settings object Food.conversions (population, nutrition requirements, inclusion flags).
SYMX havocs it to two arbitrary symbolic pre-states A and B ("whatever an earlier run of any country and scenario left behind"), executes the real start of a run
(Parameters.compute_parameters_first_round: init_scenario, set_nutrition_per_month, seaweed, fish, single-cell protein and cellulosic sugar parameters, in the
order of the real function) from each with the same symbolic inputs, and z3 proves that every attribute of Food.conversions, every entry of constants_out
and every supply series that reads the settings is identical afterwards.  Equality of whole results across orders of whole runs (pandas, PuLP/CBC, the herd
simulation) is not encodable and not claimed.
"""
import contextlib
import io
import json
import types
import numpy as np
import z3

import vlib
from symx.engine import Engine, SymReal, SymBool, zsum, close, sb, implies, conj
from symx.npproxy import patched, STUBS

PID = "C14"
MOD = "harness.C14_isolation"
ATTRS = ["days_in_month", "kcals_daily", "fat_daily", "protein_daily", "kcals_monthly", "fat_monthly", "protein_monthly", "billion_kcals_needed", "thou_tons_fat_needed", "thou_tons_protein_needed", "population"]
FLAGS = ["include_fat", "include_protein", "exclude_fat", "exclude_protein", "NUTRITION_PROPERTIES_ASSIGNED"]


def _mods():
    import src.optimizer.parameters as pm
    import src.food_system.food as fd
    import src.food_system.unit_conversions as uc
    import src.food_system.methane_scp as scp
    import src.food_system.cellulosic_sugar as cs
    import src.food_system.seaweed as sw
    import src.food_system.seafood as sf
    return pm, fd, uc, scp, cs, sw, sf


def _inputs(V, NM, inc):
    return dict(POP=V("POP", 1e4, 1e10), GLOBAL_POP=V("GLOBAL_POP", 1e9, 1e10), NMONTHS=NM, ADD_FISH=True, ADD_SEAWEED=True, ADD_MEAT=True, ADD_MILK=True, ADD_STORED_FOOD=True, ADD_METHANE_SCP=True,
                ADD_CELLULOSIC_SUGAR=True, ADD_GREENHOUSES=False, ADD_OUTDOOR_GROWING=True, STORE_FOOD_BETWEEN_YEARS=True, INCLUDE_FAT=inc[0], INCLUDE_PROTEIN=inc[1],
                NUTRITION=dict(KCALS_DAILY=V("KCALS_DAILY", 500, 5000), FAT_DAILY=V("FAT_DAILY", 1, 500), PROTEIN_DAILY=V("PROTEIN_DAILY", 1, 500)),
                SEAWEED_MAX_AREA_FRACTION=0.002, MAX_SEAWEED_AS_PERCENT_KCALS_HUMANS=7, MAX_SEAWEED_AS_PERCENT_KCALS_FEED=10, MAX_SEAWEED_AS_PERCENT_KCALS_BIOFUEL=10, INITIAL_SEAWEED_FRACTION=0.01,
                SEAWEED_NEW_AREA_FRACTION=0.03, WASTE_DISTRIBUTION={"SEAWEED": 8.0, "SUGAR": 6.0, "SEAFOOD": 7.0, "CROPS": 5.0}, WASTE_RETAIL=10.0, DELAY=dict(SEAWEED_MONTHS=1, INDUSTRIAL_FOODS_MONTHS=2),
                SEAWEED_GROWTH_PER_DAY={str(i): 5.0 + 0.1 * i for i in range(NM)}, INDUSTRIAL_FOODS_SLOPE_MULTIPLIER=1.0, SCP_GLOBAL_PRODUCTION_FRACTION=0.0123, CS_GLOBAL_PRODUCTION_FRACTION=0.02,
                FISH_DRY_CALORIC_ANNUAL=1234.5, FISH_PROTEIN_TONS_ANNUAL=100.0, FISH_FAT_TONS_ANNUAL=50.0)


class _Stop(Exception):
    pass


def _start_of_run(pm, ci, NM):
    """the real compute_parameters_first_round, cut after the cellulosic-sugar parameters (the rest needs the crop tables and the herd simulation)"""
    p = pm.Parameters()
    captured = {}
    real_cs = pm.Parameters.init_cs_params

    def cs_then_stop(self, constants_out, time_consts, constants_inputs):
        r = real_cs(self, constants_out, time_consts, constants_inputs)
        captured["constants_out"], captured["time_consts"] = r[0], r[1]
        raise _Stop()
    loader = types.SimpleNamespace(check_all_set=lambda: None, scenario_description="")
    tci = {"FISH_PERCENT_MONTHLY": np.array([100.0 - 0.5 * m for m in range(NM + 5)])}
    with patched(pm, extra={(pm.Parameters, "init_cs_params"): cs_then_stop}, np=False):
        try:
            p.compute_parameters_first_round(ci, tci, loader)
        except _Stop:
            pass
    return captured["constants_out"], captured["time_consts"]


def worker_selfcomp(case, seed):
    pm, fd, uc, scp, cs, sw, sf = _mods()
    NM = case["NM"]
    E = Engine(seed=seed, max_paths=200, query_timeout_ms=30000)
    E.prune_on = ()
    saved = fd.Food.conversions.__dict__.copy()

    def h(E):
        def V(name, lo, hi):
            v = E.real(name)
            E.assume(v >= lo)
            E.assume(v <= hi)
            return v
        ci = _inputs(V, NM, case["inc"])
        posts = []
        for tag, flags in (("A", case["preA"]), ("B", case["preB"])):
            conv = fd.Food.conversions
            conv.__dict__.clear()
            for a in ATTRS:
                setattr(conv, a, E.real("left_behind_%s_%s" % (tag, a)))      # arbitrary: whatever an earlier run left behind
            for f, val in zip(FLAGS, flags):
                setattr(conv, f, val)
            with patched(pm, fd, uc, scp, cs, sw, sf, isinstance_=True), contextlib.redirect_stdout(io.StringIO()):
                co, tc = _start_of_run(pm, ci, NM)
            posts.append((dict(conv.__dict__), co, tc))
        (ca, coa, tca), (cb, cob, tcb) = posts
        E.check("the settings object has the same attributes after the start of a run, whatever it held before", sorted(ca.keys()) == sorted(cb.keys()))
        for a in sorted(ca.keys()):
            E.check("no attribute of the shared settings survives from an earlier run", ca[a] == cb[a], info=a)
        E.check("constants handed to the optimiser have the same keys", sorted(coa.keys()) == sorted(cob.keys()))
        for k in sorted(coa.keys()):
            va, vb = coa[k], cob[k]
            if isinstance(va, (SymReal, int, float, bool)):
                E.check("constants handed to the optimiser do not depend on what an earlier run left behind", va == vb, info=k)
        for key in ("methane_scp", "cellulosic_sugar"):
            for m in range(NM):
                E.check("supply series that read the shared settings do not depend on an earlier run", tca[key].kcals[m] == tcb[key].kcals[m], info="%s[%d]" % (key, m))
        for m in range(NM):
            E.check("supply series that read the shared settings do not depend on an earlier run", tca["fish"].to_humans.kcals[m] == tcb["fish"].to_humans.kcals[m], info="fish[%d]" % m)
        # and they are what the current inputs say
        E.check("settings are those of the current run", conj([ca["population"] == ci["POP"], ca["kcals_daily"] == ci["NUTRITION"]["KCALS_DAILY"], sb(ca["include_fat"] == case["inc"][0]),
                                                               sb(ca["include_protein"] == case["inc"][1]), sb(ca["NUTRITION_PROPERTIES_ASSIGNED"] is True)]))
    try:
        E.explore(h)
    finally:
        fd.Food.conversions.__dict__.clear()
        fd.Food.conversions.__dict__.update(saved)
    return E.summary()


def replay_selfcomp(case, cx):
    pm, fd, uc, scp, cs, sw, sf = _mods()
    case = case if isinstance(case, dict) else json.loads(case)
    m = vlib.model_floats(cx["model"])
    NM = case["NM"]
    saved = fd.Food.conversions.__dict__.copy()
    outs = []
    try:
        for tag, flags in (("A", case["preA"]), ("B", case["preB"])):
            conv = fd.Food.conversions
            conv.__dict__.clear()
            for a in ATTRS:
                setattr(conv, a, m.get("left_behind_%s_%s" % (tag, a), 1.0))
            for f, val in zip(FLAGS, flags):
                setattr(conv, f, val)
            ci = _inputs(lambda n, lo, hi: m.get(n, lo), NM, case["inc"])
            with contextlib.redirect_stdout(io.StringIO()):
                co, tc = _start_of_run(pm, ci, NM)
            outs.append((dict(conv.__dict__), {k: v for k, v in co.items() if isinstance(v, (int, float, bool))}, [float(x) for x in tc["methane_scp"].kcals] + [float(x) for x in tc["cellulosic_sugar"].kcals]))
    finally:
        fd.Food.conversions.__dict__.clear()
        fd.Food.conversions.__dict__.update(saved)
    (ca, coa, sa), (cb, cob, sbb) = outs
    bad = [k for k in set(ca) | set(cb) if ca.get(k) != cb.get(k)] + [k for k in set(coa) | set(cob) if coa.get(k) != cob.get(k)]
    if sa != sbb:
        bad.append("SCP / cellulosic sugar series differ")
    return dict(reproduced=bool(bad), what="state left behind by an earlier run leaks into: %s" % bad[:5], inputs=dict(case=case, values={k: v for k, v in m.items() if "left_behind" in k}), key="leak/" + (str(bad[0])[:30] if bad else ""))


def main(tier, seed, only=None):
    rep = vlib.Report(PID, tier, seed)
    thorough = tier == "thorough"
    T, F = True, False
    pre = [[T, T, F, F, T], [F, F, T, T, T], [T, F, F, T, F], [F, T, T, F, T]]
    cases = []
    for NM in ([24] if not thorough else [24, 48]):
        for inc in ([F, F], [T, T]):
            for a, b in ((pre[0], pre[1]), (pre[2], pre[3]), (pre[1], pre[2])):
                cases.append(dict(NM=NM, inc=inc, preA=a, preB=b))
    groups = [dict(name="shared_settings_are_re_established_by_every_run", fn="worker_selfcomp", cases=cases, replay=replay_selfcomp,
                   functions=["Parameters.compute_parameters_first_round (up to the cellulosic-sugar parameters)", "init_scenario", "set_nutrition_per_month", "UnitConversions.set_nutrition_requirements", "set_seaweed_params",
                              "init_fish_params", "init_scp_params", "init_cs_params", "MethaneSCP.__init__", "CellulosicSugar.__init__"],
                   bounds="two arbitrary pre-states of Food.conversions (all 11 numeric attributes symbolic, 3 pairs of flag settings); 24 months; both inclusion settings of the current run",
                   symbolic="what an earlier run left in the shared settings (A and B), and the current run's population, global population and nutrition requirements",
                   assumptions=["current inputs in generous positive ranges"], stubs=STUBS[:3] + ["scenarios_loader.check_all_set -> no-op", "the real compute_parameters_first_round is cut after init_cs_params"],
                   outside=["equality of whole results (headline, monthly series, herd trajectories) across orders of whole runs: pandas tables re-read from disk, PuLP/CBC and the herd simulation are not encodable",
                            "module-level objects other than Food.conversions and the herd table (option dictionaries are covered by C13's 'caller's dictionary untouched')"])]
    from harness import history as H
    groups.append(dict(H.GROUP, cases=H.cases(thorough, seed)))
    groups.append(dict(H.GROUP_RESULTS, cases=H.result_cases(thorough)))
    groups.append(dict(H.GROUP_LP, cases=H.lp_cases(thorough)))
    groups.append(dict(H.GROUP_HASH, cases=H.hash_cases(thorough, seed)))
    # fifth carrier: module- or class-level leftovers in the supply classes (a table filled on first use, an input rewritten in place): a series computed after an
    # earlier computation of the same kind from other (symbolic) inputs must still be the documented function of its own inputs
    from harness import C08_supply as C8
    groups.append(dict(name="supply_series_after_an_earlier_computation", fn="harness.C08_supply:worker_series", cases=C8.history_cases(), replay=C8.replay_series,
                       functions=["OutdoorCrops.get_year_1_ratio_using_fraction_harvest_before_may", "Seafood.set_seafood_production", "StoredFood.calculate_stored_food_to_use"],
                       bounds="first-year rule, fish series (48 months, two symbolic variants), stored food: each computed twice in one process from different inputs",
                       symbolic="the inputs of both computations (own symbols each)", assumptions=["as C08"], stubs=["as C08"], outside=["the other supply classes in this order-of-runs form (their single-run closed forms are C08)"]))
    if not only or "options_object_survives_a_run" in only:
        # third carrier: run_model_no_trade hands ONE options dictionary to every country of a batch; the only code that rewrites options per country is the
        # known-to-fail table.  CrossHair (symbolic country code and option choice) decides that the rewrite goes to a private copy.
        import os
        from xhair import runner as XR
        from harness.C13_options import _xh_results, replay_xh
        xpath = os.path.join(os.path.dirname(os.path.dirname(os.path.abspath(__file__))), "xhair", "c13_options.py")
        res = XR.run(xpath, timeout=150 if not thorough else 600, repo=vlib.REPO, only=["known_failing_rewrite_leaves_caller_untouched"], extra_env=dict(VERIF_REPO=vlib.REPO))
        rep.add_group("options_object_survives_a_run", _xh_results(res, xpath, "the options dictionary shared by a batch is not rewritten"), functions=["ScenarioRunner.alter_scenario_if_known_to_fail"],
                      bounds="country code = any string of <= 3 characters; 4 shut-off x 4 resilient-food settings", symbolic="the country code (str) and the two option choices (int)", assumptions=[],
                      stubs=["none"], outside=["other writers of the options dictionary (the dispatcher's own frame condition is C13)"], replay=replay_xh)
    vlib.run_groups(rep, MOD, groups, seed, only)
    return rep.finish()


def replay_file(path):
    rec = json.load(open(path))
    print(json.dumps(rec, indent=1)[:3000])
    return 0
