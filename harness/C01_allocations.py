"""C01 Reported allocations never use food that does not exist.

The repository's real Optimizer.add_variables_and_constraints_to_model (and everything it calls) is executed against a z3-backed stand-in for
PuLP with SYMBOLIC supplies; z3 (QF_LRA) then decides, for every supply vector, that the constraint system built by the real code entails each
clause of a physical audit written from the supplies only.  Counterexamples are replayed on the real optimiser (real PuLP + CBC, all stages).
"""
import itertools
import json
import re
import time
import z3

import vlib
from lpsym import model as LM
from lpsym import spec as SP
from lpsym import queries as Q

PID = "C01"
MOD = "harness.C01_allocations"
FLAGS = ["SEAWEED", "OUTDOOR_GROWING", "STORED_FOOD", "MEAT", "METHANE_SCP", "CELLULOSIC_SUGAR"]


DISTINCT_WASTE = dict(seaweed=8.1, stored_food=6.08, meat=4.0, crops_food=5.5, methane_scp=3.3, cellulosic_sugar=2.2)


def _kind(name):
    return re.sub(r" \[month \d+\]", "", name)


FOCUS = {"stored food": ["sf0"], "crops": ["crops"], "meat": ["slaughter"], "single-cell protein": ["scp"], "cellulosic sugar": ["cs"], "seaweed": ["area"]}


def _focus_constraints(M, clause_name):
    """extra constraints for the counterexample query: every supply unrelated to the violated clause is zero, so that the real optimiser has
    to lean on the food in question (raises the chance that CBC's own optimum shows the violation)."""
    keep = []
    for pre, keys in FOCUS.items():
        if clause_name.startswith(pre):
            keep = keys
    if not keep:
        return None
    ext = []
    for k, v in M.S.items():
        if k in keep or k in ("area", "pins", "max_feed", "max_biofuel"):
            continue
        if isinstance(v, list):
            ext += [x == 0 for x in v if z3.is_expr(x)]
        elif z3.is_expr(v):
            ext.append(v == 0)
    return ext


def worker_audit(case, seed):
    """one Model per branch the builder takes on supply values (normally exactly one: the shipped builder has none)"""
    cfg = LM.default_cfg(**{k: v for k, v in case.items() if k != "clauses"})
    total = None
    try:
        for M in LM.build_all(cfg):
            r = _audit_model(case, seed, cfg, M)
            if r is None:
                continue          # a branch no supply vector takes
            if total is None:
                total = r
            else:
                for k in ("queries", "solver_s", "unsat", "sat", "unknown"):
                    total["stats"][k] += r["stats"][k]
                total["stats"]["paths"] += 1
                total["stats"]["completed"] += 1
                for k, v in r["obligations"].items():
                    o = total["obligations"].setdefault(k, dict(unsat=0, sat=0, unknown=0))
                    for kk in o:
                        o[kk] += v[kk]
                total["cex"] += [c for c in r["cex"] if sum(1 for x in total["cex"] if x["obligation"] == c["obligation"]) < 2]
                total["canary_bad"] += r["canary_bad"]
            if total is not None and total["cex"]:
                break             # this case already has counterexamples to replay: the remaining branches cannot turn it into a pass
    except OverflowError as e:
        return dict(stats=dict(paths=0, completed=0, queries=0, solver_s=0.0, unsat=0, sat=0, unknown=0), obligations={}, cex=[], errors=[str(e)], n_errors=1, canary_bad=0)
    return total


def _audit_model(case, seed, cfg, M):
    t0 = time.time()
    hyps = list(M.cons.values()) + M.bounds + M.sup
    if SP.degenerate(M):
        # run_scenario never charges feed or biofuel when no human-edible food is modelled
        hyps += [x == 0 for x in M.S["feed"] + M.S["biofuel"]]
    Mt = Q.scale_term(M)
    ent = Q.Entail(hyps, seed=seed)
    obligations = {}
    cex = []
    errors = []
    sat0 = ent.satisfiable()
    if sat0 == "unsat" and M.branch:
        return None
    canary_bad = 0 if sat0 == "sat" else 1          # the constraint system itself must be satisfiable (vacuity guard)
    clauses = [(n, f) for n, f in SP.audit(M) if not case.get("clauses") or n.startswith(case["clauses"])]
    obligations["every quantity has a lower bound of zero"] = dict(unsat=0, sat=0, unknown=0)
    if M.unbounded_below:
        obligations["every quantity has a lower bound of zero"]["sat"] += 1
        cex.append(dict(obligation="every quantity has a lower bound of zero", model={}, info="variables without lower bound: %s" % M.unbounded_below[:5], vals=None))
    else:
        obligations["every quantity has a lower bound of zero"]["unsat"] += 1
    for name, f in clauses:
        k = _kind(name)
        ob = obligations.setdefault(k, dict(unsat=0, sat=0, unknown=0))
        r, m = ent.check(Q.relax(f, Mt))
        ob[r] += 1
        if r == "sat" and sum(1 for c in cex if c["obligation"] == k) < 2:
            vals_list = []
            foc = _focus_constraints(M, name)
            if foc is not None:
                r2, m2 = ent.check(Q.relax(f, Mt), extra=foc)
                if r2 == "sat":
                    vals_list.append(Q.model_values(M, m2))
            vals_list.append(Q.model_values(M, m))
            cex.append(dict(obligation=k, model={}, info=name, vals=vals_list, growth=M.growth))
    stats = dict(paths=1, completed=1, pruned_by_code_assertions=0, pruned_other=0, queries=ent.queries, solver_s=round(ent.solver_s, 3), branches=len(M.cons),
                 unsat=ent.counts["unsat"], sat=ent.counts["sat"], unknown=ent.counts["unknown"], forks=0, constraints=len(M.cons), variables=len(M.vars))
    return dict(stats=stats, obligations=obligations, cex=cex, errors=errors, n_errors=len(errors), canary_bad=canary_bad)


# ------------------------------------------------------------------------------------------ real runs: the LPs a country run builds
def _captured_models(case):
    from lpsym import capture as CP
    from harness.C02_optimum import _scenarios
    sc = _scenarios()[case["scenario"]]
    rounds, res = CP.capture_country(case["country"], sc, case["NM"])
    return [(c, CP.model_from_capture(c)) for c in rounds]


def worker_captured(case, seed):
    """every optimisation round of a REAL country run: the first-stage LP exactly as the real code built it with real PuLP (LpProblem.to_dict -> exact rationals),
    supplies concrete (the run's), LP variables symbolic: constraints |= audit for every allocation the constraints admit."""
    obligations, cex, errors = {}, [], []
    queries = unsat = sat = unknown = 0
    solver_s = 0.0
    canary_bad = 0
    models = _captured_models(case)
    for ri, (c, M) in enumerate(models):
        if case.get("rounds") == "first" and ri > 0:
            # the rounds that charge feed carry 17-digit float coefficients in every balance row: several seconds per query in exact arithmetic (thorough tier only)
            continue
        hyps = list(M.cons.values()) + M.bounds
        ent = Q.Entail(hyps, seed=seed)
        if ent.satisfiable() != "sat":
            canary_bad += 1
        size = sum(abs(x) for v in M.S_float.values() for x in (v if isinstance(v, list) else [v]))
        Mt = z3.Sum(list(M.X.values())) + 1 + LM.q(size)
        ob0 = obligations.setdefault("every quantity has a lower bound of zero", dict(unsat=0, sat=0, unknown=0))
        ob0["unsat" if M.all_lower_bounded else "sat"] += 1
        run = 0.0
        ok_run = True
        for m in range(M.cfg["N"]):
            run += M.S_float["slaughter"][m]
            ok_run = ok_run and abs(run - M.running_given[m]) <= 1e-9 * (1 + abs(run))
        obr = obligations.setdefault("the running meat total handed to the optimiser is the cumulative slaughter", dict(unsat=0, sat=0, unknown=0))
        obr["unsat" if ok_run else "sat"] += 1
        for name, f in SP.audit(M):
            k = _kind(name)
            ob = obligations.setdefault(k, dict(unsat=0, sat=0, unknown=0))
            r, mod = ent.check(Q.relax(f, Mt))
            ob[r] += 1
            if r == "sat" and not any(x["obligation"] == k and x["round"] == ri for x in cex):
                alloc = {}
                for n, x in M.X.items():
                    v = mod.eval(x, model_completion=True)
                    alloc[n] = float(v.numerator_as_long()) / float(v.denominator_as_long())
                cex.append(dict(obligation=k, model={}, info="round %d (%s): %s" % (ri + 1, c.type, name), round=ri, clause=name, alloc=alloc))
        queries += ent.queries
        solver_s += ent.solver_s
        unsat += ent.counts["unsat"]
        sat += ent.counts["sat"]
        unknown += ent.counts["unknown"]
    done = len(models) if case.get("rounds") != "first" else min(1, len(models))
    st = dict(paths=done, completed=done, pruned_by_code_assertions=0, pruned_other=0, queries=queries, solver_s=round(solver_s, 3), branches=0, unsat=unsat, sat=sat, unknown=unknown, forks=0)
    return dict(stats=st, obligations=obligations, cex=cex, errors=errors, n_errors=0, canary_bad=canary_bad)


def _audit_floats(M, alloc):
    """which audit clauses does a concrete allocation (by real PuLP variable name) violate?  exact evaluation of the clause formulas"""
    sub = [(x, LM.q(alloc.get(n) or 0.0)) for n, x in M.X.items()]
    size = sum(abs(x) for v in M.S_float.values() for x in (v if isinstance(v, list) else [v])) + sum(abs(v or 0.0) for v in alloc.values())
    tol = LM.q(1e-6 * (1 + size))
    bad = []
    for name, f in SP.audit(M):
        g = z3.simplify(z3.substitute(Q.relax(f, tol * 10 ** 9), *sub))
        if z3.is_false(g):
            bad.append(name)
    return bad


def replay_captured(case, cx):
    case = case if isinstance(case, dict) else json.loads(case)
    models = _captured_models(case)
    c, M = models[cx["round"]]
    # (1) what the real run reported for this round
    reported = {}
    for v in c.first_stage["variables"]:
        reported[v["name"]] = None
    final = {}
    for k, lst in c.values.items():
        for m, val in enumerate(lst):
            final[(k, m)] = val
    by_name = {}
    for n in M.X:
        by_name[n] = None
    # names -> values through the same prefix mapping model_from_capture uses
    for key, terms in M.V.items():
        if isinstance(terms, list):
            for m, t in enumerate(terms):
                if hasattr(t, "z") and z3.is_const(t.z) and str(t.z) in M.X and (key, m) in final:
                    by_name[str(t.z)] = final[(key, m)]
    bad = _audit_floats(M, by_name)
    if bad:
        return dict(reproduced=True, what="%s %s %d months, round %d: the allocation the real run reports violates: %s" % (case["country"], case["scenario"], case["NM"], cx["round"] + 1, "; ".join(bad[:3])),
                    inputs=dict(case=case), key="captured/%s/reported allocation" % _kind(bad[0]))
    # (2) the solver's allocation satisfies every constraint and bound of the LP the real code built (checked on the real to_dict coefficients in floats) and breaks the audit
    d = c.first_stage
    a = cx["alloc"]
    worst = 0.0
    for k in d["constraints"]:
        e = sum(t["value"] * a.get(t["name"], 0.0) for t in k["coefficients"]) + k["constant"]
        viol = abs(e) if k["sense"] == 0 else (max(0.0, e) if k["sense"] == -1 else max(0.0, -e))
        worst = max(worst, viol)
    for v in d["variables"]:
        if v["lowBound"] is not None:
            worst = max(worst, v["lowBound"] - a.get(v["name"], 0.0))
    size = 1 + sum(abs(x) for x in a.values())
    bad2 = _audit_floats(M, a)
    if worst <= 1e-7 * size and bad2:
        return dict(reproduced=True, what="%s %s %d months, round %d: the LP built by the real run admits an allocation that violates: %s (CBC's own optimum did not use it)" % (
            case["country"], case["scenario"], case["NM"], cx["round"] + 1, "; ".join(bad2[:3])), inputs=dict(case=case, allocation={k: v for k, v in a.items() if v}),
            key="captured/%s/admitted allocation" % _kind(bad2[0]))
    return dict(reproduced=False, what="counterexample allocation does not check out in floats (worst constraint violation %g, audit clauses violated %s)" % (worst, bad2[:2]))


def replay_audit(case, cx):
    case = case if isinstance(case, dict) else json.loads(case)
    cfg = LM.default_cfg(**{k: v for k, v in case.items() if k != "clauses"})
    if cx.get("vals") is None:
        return dict(reproduced=True, what=cx.get("info"), key="audit/unbounded variable")
    tried = []
    # the solver's instances first (they include one in which unrelated supplies are zero), then generic instances of the same configuration, and generic instances in
    # which only the supplies the violated clause talks about (plus single-cell protein / sugar, which share code) are non-zero
    import random
    from harness.C02_optimum import _concrete_vals
    rng = random.Random(99)
    extra = []
    for i in range(4):
        g = _concrete_vals(cfg, rng)
        if i >= 2:
            keep = [k for pre, ks in FOCUS.items() if cx["obligation"].startswith(pre) for k in ks] + ["area", "scp", "cs"]
            g = {k: (v if (k in keep or k == "pins") else ([0.0] * len(v) if isinstance(v, list) else 0.0)) for k, v in g.items()}
        extra.append(g)
    for vals in list(cx["vals"]) + extra:
        try:
            pf, X = Q.run_real(cfg, vals, cx["growth"])
        except AssertionError as e:
            tried.append("real optimiser failed: %s" % str(e)[:80])
            continue
        bad = Q.float_audit(cfg, vals, cx["growth"], X)
        kinds = sorted({_kind(b) for b in bad})
        if bad:
            first = kinds[0] if cx["obligation"] not in kinds else cx["obligation"]
            key = "audit/%s/%s/store=%s" % (first, cfg["opt"], cfg["store"])
            return dict(reproduced=True, what="allocation reported by the real optimiser (CBC) violates: %s" % "; ".join(bad[:3]),
                        inputs=dict(case=case, supplies=vals), observed=dict(percent_fed=pf, allocation={k: v for k, v in X.items() if isinstance(v, list) and any(v)}), key=key)
        tried.append("CBC's own optimum passes the audit on this instance (percent fed %r)" % pf)
    return dict(reproduced=False, what="the constraint system admits an allocation violating '%s' but CBC's reported optimum did not show it: %s" % (cx["obligation"], "; ".join(tried)))


def _flagsets(which):
    allsets = [dict(zip(FLAGS, bits)) for bits in itertools.product([True, False], repeat=6)]
    if which == "all":
        return allsets
    full = dict.fromkeys(FLAGS, True)
    core = dict(SEAWEED=False, OUTDOOR_GROWING=True, STORED_FOOD=True, MEAT=True, METHANE_SCP=False, CELLULOSIC_SUGAR=False)
    return [full, core, dict(full, STORED_FOOD=False), dict(full, MEAT=False), dict(core, OUTDOOR_GROWING=False), dict(full, SEAWEED=False)]


def main(tier, seed, only=None):
    rep = vlib.Report(PID, tier, seed)
    thorough = tier == "thorough"
    cases = []
    # every ADD_* combination at a short horizon, both round types, storage on/off
    for fl in _flagsets("all"):
        for opt in ("to_humans", "to_animals"):
            for store in (True, False):
                cases.append(dict(N=4, opt=opt, store=store, flags=fl, retail=6.08))
    # 14 months executes every month-index branch (month 0, 1..12, >12, last); 15 also separates >12 from last in the no-storage stock rule
    full = dict.fromkeys(FLAGS, True)
    if not thorough:
        core = dict(SEAWEED=False, OUTDOOR_GROWING=True, STORED_FOOD=True, MEAT=True, METHANE_SCP=False, CELLULOSIC_SUGAR=False)
        for opt in ("to_humans", "to_animals"):
            for store in (True, False):
                cases.append(dict(N=14, opt=opt, store=store, flags=full, retail=6.08, rotation=False))
                cases.append(dict(N=14, opt=opt, store=store, flags=core, retail=6.08, rotation=True))
            cases.append(dict(N=15, opt=opt, store=False, flags=core, retail=6.08, rotation=False))
            cases.append(dict(N=9, opt=opt, store=True, flags=full, retail=24.98, rotation=False))
    else:
        # sized for about an hour on 16 cores: every ADD_* combination at 3 and 5 months under three waste levels; six representative combinations at the horizons that
        # exercise every month-index branch (9, 13, 14, 15, 16) with and without relocation; 24 months on two combinations
        for N in [3, 5]:
            for fl in _flagsets("all"):
                for opt in ("to_humans", "to_animals"):
                    for store in (True, False):
                        for retail in (0.0, 6.08, 24.98):
                            cases.append(dict(N=N, opt=opt, store=store, flags=fl, retail=retail, rotation=False))
        for N in [9, 13, 14, 15, 16]:
            for fl in _flagsets("some"):
                for opt in ("to_humans", "to_animals"):
                    for store in (True, False):
                        for rot in ((False, True) if N >= 13 else (False,)):     # the relocation branch asserts a horizon longer than harvest duration + rotation delay (10 months)
                            cases.append(dict(N=N, opt=opt, store=store, flags=fl, retail=6.08 if N != 13 else 24.98, rotation=rot))
        core = dict(SEAWEED=False, OUTDOOR_GROWING=True, STORED_FOOD=True, MEAT=True, METHANE_SCP=False, CELLULOSIC_SUGAR=False)
        for fl in (full, core):
            for opt in ("to_humans", "to_animals"):
                for store in (True, False):
                    cases.append(dict(N=24, opt=opt, store=store, flags=fl, retail=6.08, rotation=False))
    # every food with its own retail waste rate: a constraint that grosses one food up with another food's rate is only visible when the rates differ
    for N in ([5] if not thorough else [5, 14]):
        for opt in ("to_humans", "to_animals"):
            for store in (True, False):
                cases.append(dict(N=N, opt=opt, store=store, flags=full, retail=6.08, retail_by=DISTINCT_WASTE))
    # the optimiser branches on the population (looser pins under 10 million people)
    cases += [dict(N=5, opt=o, store=s, flags=full, retail=6.08, pop=p) for o in ("to_humans", "to_animals") for s in (True, False) for p in (5e5, 9.9e6)]
    if thorough:
        cases += [dict(N=14, opt=o, store=s, flags=dict.fromkeys(FLAGS, True), pop=p, symbolic_area=a) for o in ("to_humans", "to_animals") for s in (True, False) for p in (5e6, 8e9) for a in (True, False)]
    groups = [dict(name="constraints_entail_physical_audit", fn="worker_audit", cases=cases, replay=replay_audit,
                   functions=["Optimizer.__init__", "load_variable_names_and_prefixes", "add_variables_and_constraints_to_model", "add_variable_from_prefixes", "create_lp_variables",
                              "add_resource_specific_conditions_to_model", "add_conditions_to_model", "add_seaweed_to_model", "add_outdoor_crops_to_model", "handle_first_month",
                              "handle_other_months", "handle_last_month", "create_linear_constraints_for_fat_and_protein_crops_food", "add_crops_food_consumed_with_nutrient_name",
                              "add_stored_food_to_model", "add_stored_food_to_model_only_first_year", "add_meat_to_model", "add_meat_to_model_no_storage", "add_methane_scp_to_model",
                              "add_cellulosic_sugar_to_model", "add_feed_biofuel_to_model", "get_feed_sum", "get_biofuel_sum", "add_total_human_consumption_to_model",
                              "add_percentage_intake_constraints", "assign_predetermined_human_consumption_of_foods", "add_maximize_min_month_objective_to_model",
                              "add_maximize_sum_total_feed_used_by_animals"],
                   bounds="months N in %s; all 64 ADD_* combinations at N=4 (6 representative ones at longer horizons); both round types; storage between years on/off; relocation flag on/off; "
                          "retail waste %s for every food, and one setting with six different per-food rates; population 5e7, 5e5 and 9.9e6 (thorough also 5e6, 8e9)" % (sorted({c["N"] for c in cases}), sorted({c.get("retail", 6.08) for c in cases})),
                   symbolic="every supply: initial stock, monthly crops, slaughter, SCP, cellulosic sugar, milk, fish, greenhouse, feed/biofuel charge, ceilings, pinned human consumption, built seaweed area; and every LP variable",
                   assumptions=["supplies >= 0; built seaweed area non-decreasing and >= initial area", "coefficients concrete: retail waste, seaweed kcal per ton, densities, harvest loss, growth rates, intake caps, population",
                                "entailment checked in the epsilon-relaxed form (1e-9 x (1 + sum of all quantities)) because code and audit multiply float coefficients in different orders",
                                "no feed/biofuel is charged when no human-edible food is modelled (run_scenario skips the feed rounds)", "fat/protein not required (the dispatcher exits otherwise)"],
                   stubs=["pulp.LpVariable / LpProblem / PULP_CBC_CMD replaced by the z3-backed stand-in lpsym/standin.py (validated against real PuLP in C02)"],
                   outside=["horizons beyond the enumerated ones (constraints are generated per month by the same code)", "the floating-point solution CBC reports is audited only in replays", "fat/protein-required models"])]
    from harness.C02_optimum import _scenarios
    sc = _scenarios()
    names = sorted(sc)
    inst = [dict(country="ARG", scenario=n, NM=48 if not thorough else 120) for n in names if n.startswith("argentina")] + [dict(country="USA", scenario=n, NM=48 if not thorough else 120) for n in names if n.startswith("baseline_USA")][:1]
    inst += [dict(country=c, scenario=n, NM=72) for c, n in (("FRA", names[0]), ("NZL", names[-1]), ("IND", names[1 % len(names)]), ("JPN", names[2 % len(names)]), ("DJI", names[0]), ("GRC", names[-1]))]
    if thorough:
        import random
        import pandas as pd
        rng = random.Random(seed + 17)
        codes = list(pd.read_csv(vlib.REPO + "/data/no_food_trade/computer_readable_combined.csv")["iso3"])
        light = [n for n in names if "resilient" not in n]
        inst += [dict(country=c, scenario=light[rng.randrange(len(light))], NM=rng.choice([48, 84, 96])) for c in rng.sample(codes, 8)]
        # every round of one 48-month run (the rounds that charge feed cost seconds per query in exact arithmetic: about half an hour for this one case)
        inst = [dict(c, rounds="first") for c in inst] + [dict(country="USA", scenario=[n for n in names if n.startswith("baseline_USA")][0], NM=48)]
    else:
        # quick tier: runs without resilient foods (seconds per LP); the seaweed / industrial-food LPs of the resilient scenarios take > 10 min each in exact arithmetic
        inst = [dict(c, rounds="first") for c in inst if "resilient" not in c["scenario"] and c["country"] not in ("FRA", "GRC", "JPN")]
    groups.append(dict(name="real_runs_constraints_entail_physical_audit", fn="worker_captured", cases=inst, replay=replay_captured,
                       functions=["ScenarioRunnerNoTrade.run_model_no_trade (whole pipeline, real PuLP + CBC)", "Optimizer.add_variables_and_constraints_to_model as called by the run (LpProblem.to_dict of every round)"],
                       bounds="%d real country runs (shipped scenario files, horizons %s months): the first (no-feed) round of each; thorough: also every round of one 48-month run" % (len(inst), sorted({c["NM"] for c in inst})),
                       symbolic="every LP variable of the captured model (supplies, coefficients and horizon are the run's own, as exact rationals of the floats)",
                       assumptions=["entailment in the epsilon-relaxed form, 1e-9 x (1 + sum of supplies and variables)"], stubs=["results directory redirected to a scratch directory"],
                       outside=["runs other than the listed ones", "later stages of the multi-stage driver (C04)"]))
    vlib.run_groups(rep, MOD, groups, seed, only)
    return rep.finish()


def replay_file(path):
    rec = json.load(open(path))
    print(json.dumps(rec, indent=1)[:3000])
    return 0
