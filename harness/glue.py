"""The glue between the three rounds (ScenarioRunner.run_round_1/2/3): which constants reach which optimisation.

The real run_round_* methods run with a stub parameter loader and a stub optimiser.  Every object that travels between the rounds carries a SYMBOLIC number
(distinct z3 reals per round), so "round 3 is solved with the constants computed for round 3" is a z3 equality that fails for some values as soon as a round-1 or
round-2 object is passed where the round-3 one belongs, whatever the numbers of a particular country happen to be."""
import contextlib
import io
import json
import types

import numpy as np

import vlib
from symx.engine import Engine, SymReal, sb, conj

NS = types.SimpleNamespace


def _mods():
    import src.scenarios.run_scenario as rs
    return rs


def _objs(val, N=2):
    """the objects of one round, each tagged with that round's symbolic (or concrete) numbers"""
    k = lambda name: val(name)
    consts = dict(meat_summed_consumption=k("meat_total"), NMONTHS=N, POP=k("population"), inputs=dict(COUNTRY_CODE="XXX"))
    tc = dict(each_month_meat_slaughtered=NS(kcals=[k("slaughter_%d" % m) for m in range(N)]), max_consumed_culled_kcals_each_month=[k("running_%d" % m) for m in range(N)],
              milk_kcals=[k("milk_%d" % m) for m in range(N)], feed=NS(kcals=[k("feed_%d" % m) for m in range(N)]))
    return consts, tc


class _Result:
    def __init__(self, tag, val, N):
        self.tag = tag
        self.feed_sum_kcals_equivalent = NS(kcals=np.array([val("%s_result_feed_%d" % (tag, m)) for m in range(N)], dtype=object))
        self.biofuels_sum_kcals_equivalent = NS(kcals=np.array([val("%s_result_biofuel_%d" % (tag, m)) for m in range(N)], dtype=object))
        self.percent_people_fed = val("%s_percent_fed" % tag)
        self.calls = []

    def set_meat_dictionary(self, d):
        self.calls.append(("meat", d))

    def set_feed_and_biofuels(self, f):
        self.calls.append(("feed", f))


def run_rounds(rs, val, N=2):
    """drives the real run_round_1, run_round_2, run_round_3 in the order and with the hand-overs of run_and_analyze_scenario; returns what each stub received"""
    seen = dict(opt=[], second=None, third=None)
    c1, t1 = _objs(lambda n: val("round1_" + n), N)
    c2, t2 = _objs(lambda n: val("round2_" + n), N)
    c3, t3 = _objs(lambda n: val("round3_" + n), N)
    fb1, fb2, fb3 = NS(tag="feed_and_biofuels_round1"), NS(tag="feed_and_biofuels_round2"), NS(tag="feed_and_biofuels_round3")
    md0, md2, md3 = {"tag": "meat_dictionary_no_feed"}, {"tag": "meat_dictionary_round2"}, {"tag": "meat_dictionary_round3"}
    minhuman = {"tag": "min_human_food_consumption"}
    feed_demand, bio_demand, fmo1 = NS(tag="feed_demand"), NS(tag="biofuel_demand"), NS(tag="herd_round1")
    cfp = dict(NMONTHS=N)

    class Loader:
        def compute_parameters_second_round(self, *a, **k):
            seen["second"] = list(a) + list(k.values())
            return c2, t2, fb2, md2, minhuman

        def compute_parameters_third_round(self, *a, **k):
            seen["third"] = list(a) + list(k.values())
            return c3, t3, fb3, md3

    runner = rs.ScenarioRunner()
    results = []

    def run_optimizer(consts, tconsts, optimization_type=None, min_human_food_consumption=None, title="Untitled"):
        r = _Result("round%d" % (len(results) + 1), val, N)
        results.append(r)
        seen["opt"].append((consts, tconsts, optimization_type, min_human_food_consumption))
        return r
    runner.run_optimizer = run_optimizer
    keep = rs.Validator.assert_meat_dairy_doesnt_decrease_round_2
    rs.Validator.assert_meat_dairy_doesnt_decrease_round_2 = staticmethod(lambda *a, **k: None)     # a self-check on the numbers (meat / milk not lower in the feed round): not wiring
    try:
        seen, objs = _drive(rs, runner, Loader, c1, t1, fb1, md0, cfp, feed_demand, bio_demand, fmo1, seen)
    finally:
        rs.Validator.assert_meat_dairy_doesnt_decrease_round_2 = keep
    objs.update(dict(c1=c1, t1=t1, c2=c2, t2=t2, c3=c3, t3=t3, fb1=fb1, fb2=fb2, fb3=fb3, md0=md0, md2=md2, md3=md3, minhuman=minhuman, feed_demand=feed_demand, bio_demand=bio_demand, fmo1=fmo1, cfp=cfp))
    return seen, objs


def _drive(rs, runner, Loader, c1, t1, fb1, md0, cfp, feed_demand, bio_demand, fmo1, seen):
    with contextlib.redirect_stdout(io.StringIO()):
        r1, pf1, c1_back = runner.run_round_1(c1, t1, None, fb1, md0, title="t")
        out2 = runner.run_round_2(Loader(), cfp, r1, pf1, c1_back, t1, None, title="t")
        (r2, md2_back, slaughter2, running2, total2, t2_back, c2_back) = out2
        r3 = runner.run_round_3(Loader(), cfp, c1_back, c2_back, t1, t2_back, r2, fb1, feed_demand, bio_demand, r1, md2_back, slaughter2, running2, total2, fmo1, title="t")
    return seen, dict(r1=r1, r2=r2, r3=r3)


def _same_numbers(E, a, b):
    """content equality of two tagged dictionaries / namespaces (symbolic leaves by z3)"""
    from harness.history import snapshot, compare
    diffs = {}
    compare(E, snapshot(a), snapshot(b), "x", diffs)
    where = diffs.pop("__where__", [])
    conds = [c for v in diffs.values() for c in v]
    from symx.engine import SymBool
    if where or not all(bool(c) for c in conds if not isinstance(c, SymBool)):
        return False
    sym = [c for c in conds if isinstance(c, SymBool)]
    return conj(sym) if sym else True


def _obligations(E, seen, o):
    if E is None:
        # concrete replay: plain booleans
        sb_ = bool
        conj_ = all
    else:
        sb_, conj_ = sb, conj
    return _obligations_with(E, seen, o, sb_, conj_)


def _obligations_with(E, seen, o, sb, conj):
    out = []
    opt = seen["opt"]
    out.append(("three optimisations: humans, animals, humans", [x[2] for x in opt] == ["to_humans", "to_animals", "to_humans"]))
    for i, (ck, tk) in enumerate((("c1", "t1"), ("c2", "t2"), ("c3", "t3"))):
        if i < len(opt):
            out.append(("each round is solved with the constants and series computed for THAT round", conj([sb(_same_numbers(E, opt[i][0], o[ck])), sb(_same_numbers(E, opt[i][1], o[tk]))])))
    if len(opt) > 1:
        out.append(("only the feed round is given the pinned human consumption", opt[0][3] is None and opt[1][3] is o["minhuman"] and opt[2][3] is None))
    # what the parameter computations receive, whatever the order or spelling of the arguments: tagged objects by identity, constants / series by content
    def has(args, obj):
        return args is not None and any(x is obj for x in args)

    def has_numbers(args, obj):
        if args is None:
            return False
        if any(x is obj for x in args):
            return True
        for x in args:
            if isinstance(x, dict) and not isinstance(obj, dict):
                continue
            if isinstance(x, dict) and set(x.keys()) == set(obj.keys()):
                r = _same_numbers(E, x, obj)
                if r is True or (r is not False and bool(sb(r))):
                    return True
        return False
    s = seen["second"]
    out.append(("the feed round's parameters are computed from the run's inputs and the no-feed round's constants, series and result",
                has(s, o["cfp"]) and has_numbers(s, o["c1"]) and has_numbers(s, o["t1"]) and has(s, o["r1"])))
    t = seen["third"]
    out.append(("the final round's parameters are computed from both earlier rounds' constants, series and results, the demand schedules and the no-feed herd",
                has(t, o["cfp"]) and has_numbers(t, o["c1"]) and has_numbers(t, o["c2"]) and has_numbers(t, o["t1"]) and has_numbers(t, o["t2"])
                and has(t, o["r1"]) and has(t, o["r2"]) and has(t, o["fb1"]) and has(t, o["feed_demand"]) and has(t, o["bio_demand"]) and has(t, o["fmo1"])))
    out.append(("every result carries the meat dictionary and the feed of its own round",
                ("meat", o["md0"]) in o["r1"].calls and ("feed", o["fb1"]) in o["r1"].calls and ("meat", o["md2"]) in o["r2"].calls and ("meat", o["md3"]) in o["r3"].calls
                and ("feed", o["fb3"]) in o["r3"].calls and not any(k == "meat" and d is not o["md3"] for k, d in o["r3"].calls)))
    return out


def worker_glue(case, seed):
    rs = _mods()
    E = Engine(seed=seed, max_paths=400)

    def h(E):
        def val(name):
            v = E.real(name)
            E.assume(v >= 0)
            E.assume(v <= 1e9)
            return v
        from symx.npproxy import patched
        with patched(rs):
            seen, o = run_rounds(rs, val, case["N"])
        for label, cond in _obligations(E, seen, o):
            E.check(label, cond)
    E.explore(h)
    return E.summary()


def replay_glue(case, cx):
    rs = _mods()
    case = case if isinstance(case, dict) else json.loads(case)
    m = vlib.model_floats(cx["model"])
    import zlib
    # distinct numbers for every tagged value the model does not mention
    # the solver's model only has to make ONE number differ; the replay gives every tagged value its own number, which shows any object passed in another one's place
    val = lambda name: 1.0 + (zlib.crc32(name.encode()) % 9973) + (float(m.get(name, 0.0)) % 1.0)
    seen, o = run_rounds(rs, val, case["N"])
    bad = [label for label, cond in _obligations(None, seen, o) if not bool(cond)]
    return dict(reproduced=bool(bad), what="run_round_1/2/3: " + "; ".join(bad[:3]), inputs=dict(case=case), key="glue/" + (bad[0][:50] if bad else ""))


GROUP = dict(name="rounds_are_wired_to_their_own_inputs", fn="harness.glue:worker_glue", replay=replay_glue,
             functions=["ScenarioRunner.run_round_1", "run_round_2", "run_round_3"],
             bounds="the three rounds in the order of run_and_analyze_scenario; 2-3 months", symbolic="every number inside the constants, series and results that travel between the rounds (distinct symbols per round)",
             assumptions=["values in [0, 1e9]"], stubs=["Parameters.compute_parameters_second_round / third_round -> recorders returning tagged objects", "ScenarioRunner.run_optimizer -> recorder returning a tagged result"],
             outside=["what the parameter loader and the optimiser do with what they receive (C05, C18, C01-C03)", "the skipped-round branches of run_and_analyze_scenario"])
