"""Run histories over the herd table (shared by C13 and C14).

animal_populations.main() reads the FAOSTAT head-count table at the start of every run and writes the run's <species>_head overrides into the frame it got.
SYMX executes the REAL start of main() (reader call + override block, cut at AnimalModelBuilder.create_animal_objects, which receives the country's row) for a
HISTORY of runs in one process: run 1 carries overrides whose values are symbolic, run 2 carries none (or other ones).  z3 decides that the row a later run
starts from is the table on disk plus that run's own overrides -- for every override value of every earlier run."""
import contextlib
import io
import json
import types
import warnings

import numpy as np

import vlib
from symx.engine import Engine, SymReal, SymBool, sb, conj

POP_CSV = "/data/no_food_trade/animal_feed_data/FAOSTAT_head_and_slaughter.csv"


class _Stop(Exception):
    pass


def _mods():
    import src.food_system.animal_populations as ap
    return ap


def disk_row(country):
    import pandas as pd
    df = pd.read_csv(vlib.REPO + POP_CSV, index_col="iso3")
    return {c: df.loc[country][c] for c in df.columns}


def start_of_run(ap, country, overrides):
    """the real main() up to the point where the herd objects are created; returns the country's row as main() hands it on"""
    got = {}

    def capture(row, attributes):
        got["row"] = {c: row[c] for c in row.index}
        raise _Stop()
    old = ap.AnimalModelBuilder.create_animal_objects
    ap.AnimalModelBuilder.create_animal_objects = capture
    try:
        with warnings.catch_warnings(), contextlib.redirect_stdout(io.StringIO()):
            warnings.simplefilter("ignore")
            try:
                ap.main(country, types.SimpleNamespace(kcals=[0.0] * 12), types.SimpleNamespace(kcals=[0.0] * 12), "baseline", constants_inputs=dict(overrides) if overrides is not None else None)
            except _Stop:
                pass
    finally:
        ap.AnimalModelBuilder.create_animal_objects = old
    return got["row"]


def _eq(a, b):
    if isinstance(a, SymReal) or isinstance(b, SymReal):
        return sb(a == b)
    if isinstance(a, float) and isinstance(b, float) and np.isnan(a) and np.isnan(b):
        return True
    return bool(a == b)


def worker_history(case, seed):
    ap = _mods()
    country = case["country"]
    E = Engine(seed=seed, max_paths=20)
    E.prune_on = ()
    disk = disk_row(country)
    heads = [c for c in disk if c.endswith("_head")]

    def h(E):
        runs = []
        for i, spec in enumerate(case["history"]):
            cols = heads if spec == "all" else ([] if spec == "none" else [heads[j % len(heads)] for j in spec])
            ov = {}
            for c in cols:
                v = E.real("run%d_%s" % (i + 1, c))
                E.assume(v >= 0)
                E.assume(v <= 1e11)
                ov[c + "_start"] = v
            if spec != "none" and case.get("other_inputs"):
                ov["NMONTHS"] = 12
            row = start_of_run(ap, country, ov if spec != "none" else (None if case.get("none_as_None") else {}))
            runs.append((cols, ov, row))
        for i, (cols, ov, row) in enumerate(runs):
            E.check("a run starts from the same columns as the table on disk", sorted(row) == sorted(disk), info="run %d" % (i + 1))
            for c in disk:
                if c in cols:
                    E.check("a head-count override reaches the column it names in its own run", _eq(row[c], ov[c + "_start"]), info="run %d column %s" % (i + 1, c))
                else:
                    E.check("every input a run does not override is the table on disk, whatever earlier runs overrode", _eq(row[c], disk[c]), info="run %d column %s" % (i + 1, c))
    E.explore(h)
    return E.summary()


def replay_history(case, cx):
    ap = _mods()
    case = case if isinstance(case, dict) else json.loads(case)
    m = vlib.model_floats(cx["model"])
    country = case["country"]
    disk = disk_row(country)
    heads = [c for c in disk if c.endswith("_head")]
    bad = []
    used = {}
    for i, spec in enumerate(case["history"]):
        cols = heads if spec == "all" else ([] if spec == "none" else [heads[j % len(heads)] for j in spec])
        ov = {}
        for c in cols:
            val = float(m.get("run%d_%s" % (i + 1, c), 12345.0 + i))
            if val == float(disk[c]):
                val += 1.0
            ov[c + "_start"] = val
        used["run %d" % (i + 1)] = ov
        row = start_of_run(ap, country, ov if spec != "none" else (None if case.get("none_as_None") else {}))
        for c in disk:
            want = ov[c + "_start"] if c in cols else disk[c]
            a, b = row[c], want
            same = (a == b) or (isinstance(a, float) and isinstance(b, float) and np.isnan(a) and np.isnan(b))
            if not same:
                bad.append("run %d starts with %s = %r, expected %r" % (i + 1, c, a, b))
    return dict(reproduced=bool(bad), what="%s, history %s: %s" % (country, case["history"], "; ".join(bad[:3])), inputs=dict(case=case, overrides=used),
                key="history/herd table carries an earlier run's override")


def cases(thorough, seed):
    import random
    import pandas as pd
    codes = list(pd.read_csv(vlib.REPO + POP_CSV)["iso3"])
    rng = random.Random(seed)
    pick = ["USA", "NZL"] + (rng.sample(codes, 10) if thorough else rng.sample(codes, 2))
    out = []
    for c in pick:
        out.append(dict(country=c, history=["all", "none"]))
        out.append(dict(country=c, history=["all", "none"], none_as_None=True))
        out.append(dict(country=c, history=[[0, 3, 7], [1, 3], "none"]))
        out.append(dict(country=c, history=["none", "all", "none", [2]]))
    return out


GROUP = dict(name="herd_table_across_a_history_of_runs", fn="harness.history:worker_history", replay=replay_history,
             functions=["animal_populations.main (reader call and head-count override block, cut at AnimalModelBuilder.create_animal_objects)", "AnimalDataReader.read_animal_population_data"],
             bounds="histories of 2-4 runs of one country in one process; 4 countries (thorough 12); every <species>_head column overridden in some run",
             symbolic="the value of every head-count override of every run",
             assumptions=["override values in [0, 1e11]"], stubs=["AnimalModelBuilder.create_animal_objects -> captures the row it is given and stops the run"],
             outside=["tables other than the head-count table (they are read but never written by the model)", "the rest of the run after the herd objects are created"])


# =====================================================================================================================================
# Result objects across a history of runs: B, A, B.  Whatever the second run of B returns must be what its first run returned.
# =====================================================================================================================================
def snapshot(obj, depth=0, seen=None):
    """a detached copy of everything reachable from a result object through instance AND class attributes (class-level containers are where
    accumulators shared between runs live); leaves are numbers / SymReal / str / bool / None"""
    import types as _t
    seen = seen if seen is not None else set()
    if isinstance(obj, SymReal) or obj is None or isinstance(obj, (bool, int, float, str, np.floating, np.integer, np.bool_)):
        return obj
    if isinstance(obj, (list, tuple)):
        return [snapshot(x, depth + 1, seen) for x in obj]
    if isinstance(obj, np.ndarray):
        return [snapshot(x, depth + 1, seen) for x in obj.tolist()] if obj.dtype == object else [float(x) if obj.dtype.kind == "f" else x for x in obj.tolist()]
    if isinstance(obj, dict):
        return {"__dict__": {str(k): snapshot(v, depth + 1, seen) for k, v in obj.items()}}
    if isinstance(obj, (_t.FunctionType, _t.MethodType, _t.ModuleType, _t.BuiltinFunctionType, type)) or depth > 4 or id(obj) in seen:
        return "<skipped>"
    seen = seen | {id(obj)}
    out = {}
    for name in dir(obj):
        if name.startswith("__"):
            continue
        try:
            v = getattr(obj, name)
        except Exception:   # noqa
            continue
        if callable(v) and not isinstance(v, (dict, list)):
            continue
        out[name] = snapshot(v, depth + 1, seen)
    return {"__obj__": type(obj).__name__, "attrs": out}


def compare(E, a, b, path, diffs):
    """structural comparison of two snapshots; symbolic leaves become solver obligations collected in diffs[path] (list of SymBool / bool)"""
    if isinstance(a, dict) and isinstance(b, dict):
        ka = a.get("__dict__", a.get("attrs"))
        kb = b.get("__dict__", b.get("attrs"))
        if ka is None or kb is None or sorted(ka) != sorted(kb):
            diffs.setdefault(path, []).append(False)
            diffs.setdefault("__where__", []).append("%s: entries %s vs %s" % (path, sorted(ka or [])[:12], sorted(kb or [])[:12]))
            return
        for k in ka:
            compare(E, ka[k], kb[k], path + "." + k, diffs)
        return
    if isinstance(a, list) and isinstance(b, list):
        if len(a) != len(b):
            diffs.setdefault(path, []).append(False)
            diffs.setdefault("__where__", []).append("%s: length %d vs %d" % (path, len(a), len(b)))
            return
        for i, (x, y) in enumerate(zip(a, b)):
            compare(E, x, y, path, diffs)
        return
    diffs.setdefault(path.split(".")[1] if "." in path else path, []).append(_eq(a, b) if not (isinstance(a, str) or isinstance(b, str)) else a == b)


PREF_SYM = ["meat_eaten", "stored_food_to_humans"]


def _one_run(mods, consts, N, tag, E, meat, values=None):
    """one run's reporting chain as run_scenario drives it: Extractor.extract_results -> Interpreter.interpret_results -> set_feed_and_biofuels -> set_meat_dictionary"""
    from harness import C04_reporting as C4
    om, ex, ir, fd, uc = mods
    base = dict(a=7.0, b=3.0)[tag]
    vals = {}
    for i, p in enumerate(C4.PREF):
        if p.endswith("_fat") or p.endswith("_protein"):
            vals[p] = [0.0] * N
        elif p in PREF_SYM:
            if values is None:
                vals[p] = E.reals("%s_%s" % (tag, p), N)
                for v in vals[p]:
                    E.assume(v >= 0)
                    E.assume(v <= 1e6)
            else:
                vals[p] = [np.float64(values.get("%s_%s_%d" % (tag, p, m), 1.0)) for m in range(N)]
        else:
            vals[p] = [np.float64(base + 0.25 * i + m) if "to_humans" in p else np.float64(0.0) for m in range(N)]
    milk, fish, gh, prod = ([np.float64(base * k + m) for m in range(N)] for k in (1.0, 0.5, 0.25, 40.0))

    class LV(om.pulp.LpVariable):
        def __init__(self, name, val):
            om.pulp.LpVariable.__init__(self, name)
            self.varValue = val
    c = dict(consts)
    c["NMONTHS"] = N
    variables = {p: [LV("%s_%d" % (p, m), vals[p][m]) for m in range(N)] for p in C4.PREF}

    def F(k):
        z = np.array([np.float64(0.0)] * N, dtype=object)
        return fd.Food(np.array(list(k), dtype=object), z.copy(), z.copy(), "billion kcals each month", "thousand tons each month", "thousand tons each month")
    tc = dict(nonhuman_consumption=F([0.0] * N), fish=types.SimpleNamespace(to_humans=F(fish)), greenhouse_crops=F(gh), outdoor_crops=types.SimpleNamespace(production=F(prod)),
              milk_kcals=np.array(list(milk), dtype=object), milk_fat=np.array([0.0] * N, dtype=object), milk_protein=np.array([0.0] * N, dtype=object))
    model = types.SimpleNamespace(variables=lambda: [])
    interp = ir.Interpreter()
    e = ex.Extractor(c).extract_results(model, variables, tc)
    I = interp.interpret_results(e, "vp_hist_" + tag)
    I.set_feed_and_biofuels(types.SimpleNamespace(tag=tag))
    I.set_meat_dictionary(meat)
    return I


def _meat(tag, N):
    d = {"meat_cattle": [100.0 + m for m in range(N)], "meat_cattle_population": [5000.0 - m for m in range(N)], "pig": [0.0] * N, "pig_population": [0.0] * N}
    if tag == "a":
        d.update({"camelids": [7.0] * N, "camelids_population": [70.0] * N, "pig": [3.0] * N, "pig_population": [30.0] * N})
    return d


def worker_result_objects(case, seed):
    from harness import C04_reporting as C4
    from symx.npproxy import patched
    import tempfile
    import os
    import shutil
    mods = C4._mods()
    om, ex, ir, fd, uc = mods
    consts = C4._real_constants(case.get("country", "ARG"))
    N = case["N"]
    E = Engine(seed=seed, max_paths=400, query_timeout_ms=30000)
    E.div0_mode = "numpy"
    tmp = tempfile.mkdtemp(prefix="vp_hist_")
    os.mkdir(os.path.join(tmp, "results"))

    class FakeDF:
        def __init__(self, d):
            pass

        def to_csv(self, *a, **k):
            pass

    def h(E):
        snaps = []
        with patched(ex, ir, fd, uc, isinstance_=True, extra={(ir, "pd"): types.SimpleNamespace(DataFrame=FakeDF), (ir, "repo_root"): tmp}), contextlib.redirect_stdout(io.StringIO()):
            for tag in case["history"]:
                I = _one_run(mods, consts, N, tag, E, _meat(tag, N))
                snaps.append((tag, snapshot(I)))
        first = {}
        for tag, s in snaps:
            if tag in first:
                diffs = {}
                compare(E, first[tag], s, "result", diffs)
                where = diffs.pop("__where__", [])
                for attr, conds in sorted(diffs.items()):
                    ok = all(bool(c) for c in conds if not isinstance(c, SymBool))
                    sym = [c for c in conds if isinstance(c, SymBool)]
                    E.check("a run repeated after other runs returns the same result object (every attribute, instance and class level)", conj(sym) if (ok and sym) else ok,
                            info="%s %s" % (attr, [w for w in where if w.startswith("result." + attr) or w.startswith(attr)][:2]))
            else:
                first[tag] = s
    try:
        E.explore(h)
    finally:
        shutil.rmtree(tmp, ignore_errors=True)
    return E.summary()


def replay_result_objects(case, cx):
    from harness import C04_reporting as C4
    import tempfile
    import os
    import shutil
    case = case if isinstance(case, dict) else json.loads(case)
    mods = C4._mods()
    om, ex, ir, fd, uc = mods
    consts = C4._real_constants(case.get("country", "ARG"))
    m = vlib.model_floats(cx["model"])
    tmp = tempfile.mkdtemp(prefix="vp_histr_")
    os.mkdir(os.path.join(tmp, "results"))
    old = ir.repo_root
    ir.repo_root = tmp
    bad = []
    try:
        first = {}
        with contextlib.redirect_stdout(io.StringIO()), np.errstate(all="ignore"):
            for tag in case["history"]:
                I = _one_run(mods, consts, case["N"], tag, None, _meat(tag, case["N"]), values=m)
                s = snapshot(I)
                if tag in first:
                    diffs = {}
                    compare(None, first[tag], s, "result", diffs)
                    where = diffs.pop("__where__", [])
                    for attr, conds in diffs.items():
                        if not all(bool(c) for c in conds):
                            bad.append("%s differs %s" % (attr, [w for w in where if attr in w][:1]))
                else:
                    first[tag] = s
    finally:
        ir.repo_root = old
        shutil.rmtree(tmp, ignore_errors=True)
    return dict(reproduced=bool(bad), what="history %s: the repeated run's result differs from its first run: %s" % (case["history"], "; ".join(bad[:4])), inputs=dict(case=case, values=m),
                key="history/result object carries state of another run")


GROUP_RESULTS = dict(name="result_objects_across_a_history_of_runs", fn="harness.history:worker_result_objects", replay=replay_result_objects,
                     functions=["Extractor.extract_results", "Interpreter.interpret_results", "Interpreter.set_feed_and_biofuels", "Interpreter.set_meat_dictionary"],
                     bounds="histories B,A,B and B,A,A,B of the reporting chain in one process; 1-2 months; run A reports more species than run B",
                     symbolic="meat eaten and stored food eaten of every run (the other allocations are concrete and differ between A and B)",
                     assumptions=["values in [0, 1e6]", "paths on which the code's own validators assert are pruned"],
                     stubs=["pd.DataFrame -> recorder, repo_root -> scratch directory, stub model.variables()"],
                     outside=["state carried through pandas / PuLP objects", "the optimiser and the herd simulation"])


def result_cases(thorough):
    return [dict(N=1, history=["b", "a", "b"]), dict(N=2, history=["b", "a", "b"])] + ([dict(N=1, history=["b", "a", "a", "b"]), dict(N=2, history=["a", "b", "a"])] if thorough else [])


# =====================================================================================================================================
# The LP builder across a history of runs: B, A, B.  The linear programme built for the second B must be the one built for the first.
# =====================================================================================================================================
def _lp_cfg(tag, opt, store):
    from lpsym import model as LM
    full = dict.fromkeys(LM.FOODS, True)
    # A is a country under 10 million people (the builder has a branch on that), B a large one; same supply symbols for both runs of B
    return LM.default_cfg(N=3, opt=opt, store=store, flags=full, pop=5e5 if tag == "a" else 5e7, tag="hist_%s_" % tag)


def worker_lp_history(case, seed):
    import z3
    from lpsym import model as LM
    from lpsym import queries as Q
    built = []
    for tag in case["history"]:
        M = LM.build(_lp_cfg(tag, case["opt"], case["store"]))
        built.append((tag, M))
    obligations = {"the linear programme built for a run repeated after other runs is the one built the first time (same rows, same coefficients, same bounds)": dict(unsat=0, sat=0, unknown=0)}
    ob = list(obligations.values())[0]
    cex = []
    queries = 0
    first = {}
    for tag, M in built:
        if tag not in first:
            first[tag] = M
            continue
        M0 = first[tag]
        names0, names1 = sorted(M0.cons), sorted(M.cons)
        if names0 != names1:
            ob["sat"] += 1
            cex.append(dict(obligation=list(obligations)[0], model={}, info="rows differ: %s" % sorted(set(names0) ^ set(names1))[:6]))
            continue
        s = z3.SolverFor("QF_LRA")
        s.set("timeout", 60000)
        for n in names0:
            queries += 1
            if z3.eq(M0.cons[n], M.cons[n]):
                ob["unsat"] += 1
                continue
            # not syntactically identical: equivalent for all values?
            s.push()
            s.add(M0.cons[n] != M.cons[n])
            r = str(s.check())
            s.pop()
            ob[r if r in ("unsat", "unknown") else "sat"] += 1
            if r == "sat":
                cex.append(dict(obligation=list(obligations)[0], model={}, info="row %s differs between the first and the repeated run" % n, row=n))
        b0 = sorted(str(b) for b in M0.bounds)
        b1 = sorted(str(b) for b in M.bounds)
        queries += 1
        ob["unsat" if b0 == b1 else "sat"] += 1
        if b0 != b1:
            cex.append(dict(obligation=list(obligations)[0], model={}, info="variable bounds differ"))
    st = dict(paths=1, completed=1, pruned_by_code_assertions=0, pruned_other=0, queries=queries, solver_s=0.0, branches=0, unsat=ob["unsat"], sat=ob["sat"], unknown=ob["unknown"], forks=0)
    return dict(stats=st, obligations=obligations, cex=cex[:3], errors=[], n_errors=0, canary_bad=0)


def replay_lp_history(case, cx):
    """the same history with the REAL PuLP: build the first-stage LP for B, A, B on concrete supplies and compare the two B programmes row by row"""
    import random
    from lpsym import capture as CP
    from harness.C02_optimum import _concrete_vals
    case = case if isinstance(case, dict) else json.loads(case)
    rng = random.Random(31)
    dicts = {}
    bad = []
    vals = {}
    for tag in case["history"]:
        cfg = _lp_cfg(tag, case["opt"], case["store"])
        if tag not in vals:
            vals[tag] = _concrete_vals(cfg, rng)
        growth = [140.0 + 3.0 * (m % 5) for m in range(cfg["N"])]
        d = CP.real_first_stage_dict(cfg, vals[tag], growth)
        rows = {k["name"]: (k["sense"], round(k["constant"], 12), tuple(sorted((t["name"], round(t["value"], 12)) for t in k["coefficients"]))) for k in d["constraints"]}
        if tag in dicts:
            for n in sorted(set(rows) | set(dicts[tag])):
                if rows.get(n) != dicts[tag].get(n):
                    bad.append("row %s: first run %s, repeated run %s" % (n, str(dicts[tag].get(n))[:120], str(rows.get(n))[:120]))
        else:
            dicts[tag] = rows
    return dict(reproduced=bool(bad), what="history %s (%s round): %s" % (case["history"], case["opt"], "; ".join(bad[:2])), inputs=dict(case=case), key="history/LP of a repeated run differs")


GROUP_LP = dict(name="linear_programme_across_a_history_of_runs", fn="harness.history:worker_lp_history", replay=replay_lp_history,
                functions=["Optimizer.__init__", "Optimizer.add_variables_and_constraints_to_model and every add_*_to_model it calls", "assign_predetermined_human_consumption_of_foods"],
                bounds="histories B,A,B and B,A,A,B (A: a country under 10 million people, B: 50 million); 3 months, all foods, both round types, storage on/off",
                symbolic="every supply of every run (the two runs of B share their symbols)", assumptions=[], stubs=["lpsym/standin.py"],
                outside=["state carried by PuLP/CBC themselves", "horizons beyond 3 months (the builder is the same code per month)"])


def lp_cases(thorough):
    out = [dict(history=["b", "a", "b"], opt=o, store=s) for o in ("to_animals", "to_humans") for s in (True, False)]
    if thorough:
        out += [dict(history=["b", "a", "a", "b"], opt="to_animals", store=True), dict(history=["a", "b", "a"], opt="to_animals", store=True)]
    return out


# =====================================================================================================================================
# Fresh processes: the order in which the herds are created and served must not depend on the interpreter's string-hash seed.
# (concrete comparison of real runs in separate interpreters -- nothing symbolic here; kept with the histories because it is the "alone in a fresh
# process" clause of C14 and no in-process execution can see it)
# =====================================================================================================================================
_ORDER_SNIPPET = r'''
import sys, io, contextlib, json
sys.path.insert(0, %r)
import numpy as np
import src.food_system.animal_populations as ap
from src.food_system.food import Food
out = {}
for c in %r:
    with contextlib.redirect_stdout(io.StringIO()):
        animals, fu, gu = ap.main(c, Food(np.zeros(2)), Food(np.zeros(2) + 1e3), %r, constants_inputs=None, remove_first_month=0,
                                  kcals_per_head_meat_dict=dict(KCALS_PER_CHICKEN=1.5e-6, KCALS_PER_PIG=1.1e-4, KCALS_PER_SMALL_ANIMAL=2.0e-6, KCALS_PER_MEDIUM_ANIMAL=6.0e-5, KCALS_PER_LARGE_ANIMAL=6.5e-4))
    out[c] = [[a.animal_type, float(a.population[-1]), float(a.slaughter[-1])] for a in animals]
print("ORDER " + json.dumps(out))
'''


def worker_hash_seed(case, seed):
    import os
    import subprocess
    import sys
    runs = {}
    errors = []
    for hs in case["seeds"]:
        env = dict(os.environ, PYTHONHASHSEED=str(hs), MPLBACKEND="Agg")
        p = subprocess.run([sys.executable, "-c", _ORDER_SNIPPET % (vlib.REPO, case["countries"], case["strategy"])], cwd=vlib.REPO, env=env, stdout=subprocess.PIPE, stderr=subprocess.STDOUT, text=True, timeout=600)
        line = [l for l in p.stdout.splitlines() if l.startswith("ORDER ")]
        if not line:
            errors.append("hash seed %s: no result: %s" % (hs, p.stdout[-300:]))
            continue
        runs[hs] = json.loads(line[0][6:])
    name = "herds are created, served and slaughtered in the same order whatever the interpreter's string-hash seed"
    ob = {name: dict(unsat=0, sat=0, unknown=0)}
    cex = []
    base = runs.get(case["seeds"][0])
    for hs, r in runs.items():
        for c in case["countries"]:
            if base is None or hs == case["seeds"][0]:
                continue
            if r[c] == base[c]:
                ob[name]["unsat"] += 1
            else:
                ob[name]["sat"] += 1
                first = next((i for i, (x, y) in enumerate(zip(r[c], base[c])) if x != y), 0)
                cex.append(dict(obligation=name, model={}, info="%s: hash seed %s gives %s at position %d, hash seed %s gives %s" % (c, case["seeds"][0], base[c][first], first, hs, r[c][first])))
    st = dict(paths=len(runs), completed=len(runs), pruned_by_code_assertions=0, pruned_other=0, queries=0, solver_s=0.0, branches=0, unsat=ob[name]["unsat"], sat=ob[name]["sat"], unknown=0, forks=0)
    return dict(stats=st, obligations=ob, cex=cex[:2], errors=errors, n_errors=len(errors), canary_bad=0)


def replay_hash_seed(case, cx):
    # the observation IS a pair of real runs
    return dict(reproduced=True, what=cx["info"], inputs=dict(case=case if isinstance(case, dict) else json.loads(case)), key="fresh process/result depends on the string-hash seed")


GROUP_HASH = dict(name="fresh_processes_with_different_hash_seeds", fn="harness.history:worker_hash_seed", replay=replay_hash_seed,
                  functions=["animal_populations.main (herd construction, priority order, one month)"],
                  bounds="3 interpreter processes (string-hash seeds 0, 1, 2) x 6 countries (thorough 16), reduced-breeding strategy, 2 months",
                  symbolic="nothing: a concrete comparison of real runs in separate interpreters (the 'alone in a fresh process' clause cannot be seen from inside one process)",
                  assumptions=[], stubs=[], outside=["hash seeds other than the three tried", "the optimiser rounds"])


def hash_cases(thorough, seed):
    import random
    import pandas as pd
    codes = list(pd.read_csv(vlib.REPO + POP_CSV)["iso3"])
    rng = random.Random(seed + 5)
    pick = ["BOL", "IND", "CHN", "USA"] + rng.sample(codes, 12 if thorough else 2)
    return [dict(countries=pick, strategy="reduced", seeds=[0, 1, 2])]
