"""Run histories over the herd table (shared by C13 and C14).

animal_populations.main() reads the FAOSTAT head-count table at the start of every run and writes the run's <species>_head overrides into the frame it got.
SYMX executes the REAL start of main() (reader call + override block, cut at AnimalModelBuilder.create_animal_objects, which receives the country's row) for a
HISTORY of runs in one process: run 1 carries overrides whose values are symbolic, run 2 carries none (or other ones).  z3 decides that the row a later run
starts from is the table on disk plus that run's own overrides -- for every override value of every earlier run."""
import contextlib
import io
import json
import types
import warnings

import numpy as np

import vlib
from symx.engine import Engine, SymReal, sb, conj

POP_CSV = "/data/no_food_trade/animal_feed_data/FAOSTAT_head_and_slaughter.csv"


class _Stop(Exception):
    pass


def _mods():
    import src.food_system.animal_populations as ap
    return ap


def disk_row(country):
    import pandas as pd
    df = pd.read_csv(vlib.REPO + POP_CSV, index_col="iso3")
    return {c: df.loc[country][c] for c in df.columns}


def start_of_run(ap, country, overrides):
    """the real main() up to the point where the herd objects are created; returns the country's row as main() hands it on"""
    got = {}

    def capture(row, attributes):
        got["row"] = {c: row[c] for c in row.index}
        raise _Stop()
    old = ap.AnimalModelBuilder.create_animal_objects
    ap.AnimalModelBuilder.create_animal_objects = capture
    try:
        with warnings.catch_warnings(), contextlib.redirect_stdout(io.StringIO()):
            warnings.simplefilter("ignore")
            try:
                ap.main(country, types.SimpleNamespace(kcals=[0.0] * 12), types.SimpleNamespace(kcals=[0.0] * 12), "baseline", constants_inputs=dict(overrides) if overrides is not None else None)
            except _Stop:
                pass
    finally:
        ap.AnimalModelBuilder.create_animal_objects = old
    return got["row"]


def _eq(a, b):
    if isinstance(a, SymReal) or isinstance(b, SymReal):
        return sb(a == b)
    if isinstance(a, float) and isinstance(b, float) and np.isnan(a) and np.isnan(b):
        return True
    return bool(a == b)


def worker_history(case, seed):
    ap = _mods()
    country = case["country"]
    E = Engine(seed=seed, max_paths=20)
    E.prune_on = ()
    disk = disk_row(country)
    heads = [c for c in disk if c.endswith("_head")]

    def h(E):
        runs = []
        for i, spec in enumerate(case["history"]):
            cols = heads if spec == "all" else ([] if spec == "none" else [heads[j % len(heads)] for j in spec])
            ov = {}
            for c in cols:
                v = E.real("run%d_%s" % (i + 1, c))
                E.assume(v >= 0)
                E.assume(v <= 1e11)
                ov[c + "_start"] = v
            if spec != "none" and case.get("other_inputs"):
                ov["NMONTHS"] = 12
            row = start_of_run(ap, country, ov if spec != "none" else (None if case.get("none_as_None") else {}))
            runs.append((cols, ov, row))
        for i, (cols, ov, row) in enumerate(runs):
            E.check("a run starts from the same columns as the table on disk", sorted(row) == sorted(disk), info="run %d" % (i + 1))
            for c in disk:
                if c in cols:
                    E.check("a head-count override reaches the column it names in its own run", _eq(row[c], ov[c + "_start"]), info="run %d column %s" % (i + 1, c))
                else:
                    E.check("every input a run does not override is the table on disk, whatever earlier runs overrode", _eq(row[c], disk[c]), info="run %d column %s" % (i + 1, c))
    E.explore(h)
    return E.summary()


def replay_history(case, cx):
    ap = _mods()
    case = case if isinstance(case, dict) else json.loads(case)
    m = vlib.model_floats(cx["model"])
    country = case["country"]
    disk = disk_row(country)
    heads = [c for c in disk if c.endswith("_head")]
    bad = []
    used = {}
    for i, spec in enumerate(case["history"]):
        cols = heads if spec == "all" else ([] if spec == "none" else [heads[j % len(heads)] for j in spec])
        ov = {}
        for c in cols:
            val = float(m.get("run%d_%s" % (i + 1, c), 12345.0 + i))
            if val == float(disk[c]):
                val += 1.0
            ov[c + "_start"] = val
        used["run %d" % (i + 1)] = ov
        row = start_of_run(ap, country, ov if spec != "none" else (None if case.get("none_as_None") else {}))
        for c in disk:
            want = ov[c + "_start"] if c in cols else disk[c]
            a, b = row[c], want
            same = (a == b) or (isinstance(a, float) and isinstance(b, float) and np.isnan(a) and np.isnan(b))
            if not same:
                bad.append("run %d starts with %s = %r, expected %r" % (i + 1, c, a, b))
    return dict(reproduced=bool(bad), what="%s, history %s: %s" % (country, case["history"], "; ".join(bad[:3])), inputs=dict(case=case, overrides=used),
                key="history/herd table carries an earlier run's override")


def cases(thorough, seed):
    import random
    import pandas as pd
    codes = list(pd.read_csv(vlib.REPO + POP_CSV)["iso3"])
    rng = random.Random(seed)
    pick = ["USA", "NZL"] + (rng.sample(codes, 10) if thorough else rng.sample(codes, 2))
    out = []
    for c in pick:
        out.append(dict(country=c, history=["all", "none"]))
        out.append(dict(country=c, history=["all", "none"], none_as_None=True))
        out.append(dict(country=c, history=[[0, 3, 7], [1, 3], "none"]))
        out.append(dict(country=c, history=["none", "all", "none", [2]]))
    return out


GROUP = dict(name="herd_table_across_a_history_of_runs", fn="harness.history:worker_history", replay=replay_history,
             functions=["animal_populations.main (reader call and head-count override block, cut at AnimalModelBuilder.create_animal_objects)", "AnimalDataReader.read_animal_population_data"],
             bounds="histories of 2-4 runs of one country in one process; 4 countries (thorough 12); every <species>_head column overridden in some run",
             symbolic="the value of every head-count override of every run",
             assumptions=["override values in [0, 1e11]"], stubs=["AnimalModelBuilder.create_animal_objects -> captures the row it is given and stops the run"],
             outside=["tables other than the head-count table (they are read but never written by the model)", "the rest of the run after the herd objects are created"])
