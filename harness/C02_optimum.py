"""C02 Percent fed is the true optimum of the allocation problem.

(i)  parametric, all supplies symbolic: the feasible set of the LP the real code builds equals the feasible set of an independently written
     specification LP (two-way entailment, QF_LRA), and both have the same objective expression;
(ii) per instance: for the LPs captured from real country runs, z3 refutes "a feasible point beats CBC's value by 1e-4" and finds a point within 1e-4 of it;
(0)  translation validation of the PuLP stand-in used in (i) and in C01/C03/C04/C12 against real PuLP.
"""
import json
import zlib
import random
import re
import time
import z3

import vlib
from lpsym import model as LM
from lpsym import spec as SP
from lpsym import queries as Q
from lpsym import capture as CP

PID = "C02"
MOD = "harness.C02_optimum"
FLAGS = LM.FOODS


def _kind(name):
    name = re.sub(r" \[month \d+\]", "", name)
    name = re.sub(r"_\d+_Constraint$", "_<month>_Constraint", name)
    name = re.sub(r"Month_\d+_", "Month_<m>_", name)
    return name


def _summary(ent, obligations, cex, canary_bad, extra=None):
    st = dict(paths=1, completed=1, pruned_by_code_assertions=0, pruned_other=0, queries=ent.queries if ent else 0, solver_s=round(ent.solver_s, 3) if ent else 0.0, branches=0,
              unsat=ent.counts["unsat"] if ent else 0, sat=ent.counts["sat"] if ent else 0, unknown=ent.counts["unknown"] if ent else 0, forks=0)
    if extra:
        st.update(extra)
    return dict(stats=st, obligations=obligations, cex=cex, errors=[], n_errors=0, canary_bad=canary_bad)


# ----------------------------------------------------------------------------------------------- (i) two-way equivalence
def worker_equiv(case, seed):
    cfg = LM.default_cfg(**{k: v for k, v in case.items() if k != "direction"})
    M = LM.build(cfg)
    obligations, cex = {}, []
    degenerate = SP.degenerate(M)
    extra_sup = [x == 0 for x in M.S["feed"] + M.S["biofuel"]] if degenerate else []
    if case["direction"] == "code_implies_spec":
        A, spec, zobj, sub = SP.spec_lp(M, over="code")
        hyps = list(M.cons.values()) + M.bounds + M.sup + extra_sup
        Mt = Q.scale_term(M)
        ent = Q.Entail(hyps, seed=seed)
        canary = 0 if ent.satisfiable() == "sat" else 1
        for name, f in spec:
            k = _kind(name)
            ob = obligations.setdefault("code => " + k, dict(unsat=0, sat=0, unknown=0))
            r, m = ent.check(Q.relax(f, Mt))
            ob[r] += 1
            if r == "sat" and sum(1 for c in cex if c["obligation"] == "code => " + k) < 1:
                cex.append(dict(obligation="code => " + k, model={}, info=name, vals=[Q.model_values(M, m)], growth=M.growth, direction=case["direction"]))
    else:
        A, spec, zobj, sub = SP.spec_lp(M, over="fresh")
        avars = [x for l in A.values() for x in l if z3.is_const(x) and x.decl().kind() == z3.Z3_OP_UNINTERPRETED] + [zobj]
        hyps = [f for _, f in spec] + M.sup + extra_sup
        Mt = z3.Sum(avars + LM.all_supply_symbols(M)) + 1
        ent = Q.Entail(hyps, seed=seed)
        canary = 0 if ent.satisfiable() == "sat" else 1
        goals = [(n, z3.substitute(c, *sub)) for n, c in M.cons.items()] + [("bound_%s" % v.name, z3.substitute(v.z >= LM.q(v.lowBound), *sub)) for v in M.vars if v.lowBound is not None]
        for name, g in goals:
            k = _kind(name)
            ob = obligations.setdefault("spec => " + k, dict(unsat=0, sat=0, unknown=0))
            if z3.is_true(z3.simplify(g)):
                ob["unsat"] += 1
                continue
            r, m = ent.check(Q.relax(g, Mt))
            ob[r] += 1
            if r == "sat" and sum(1 for c in cex if c["obligation"] == "spec => " + k) < 1:
                vals = Q.model_values(M, m)
                alloc = {key: [float(m.eval(x, model_completion=True).as_fraction()) if z3.is_expr(x) else 0.0 for x in l] for key, l in A.items()}
                cex.append(dict(obligation="spec => " + k, model={}, info=name, vals=[vals], alloc=alloc, zobj=float(m.eval(zobj, model_completion=True).as_fraction()), growth=M.growth, direction=case["direction"]))
        # same objective: the code's objective variable is the spec objective under the substitution
        ob = obligations.setdefault("objective expression is the same", dict(unsat=0, sat=0, unknown=0))
        ob["unsat" if z3.eq(z3.substitute(M.objective, *sub), zobj) else "sat"] += 1
    return _summary(ent, obligations, cex, canary, dict(constraints=len(M.cons), variables=len(M.vars)))


def replay_equiv(case, cx):
    """code => spec counterexamples: CBC's optimum on the instance must violate the audit (as C01).  spec => code counterexamples: the physically
    feasible allocation found by z3 feeds strictly more than CBC reports on that instance (the code cuts off a feasible allocation)."""
    case = case if isinstance(case, dict) else json.loads(case)
    cfg = LM.default_cfg(**{k: v for k, v in case.items() if k != "direction"})
    vals = cx["vals"][0]
    if cx["direction"] == "code_implies_spec":
        # the constraint system admits an allocation outside the specification; whether CBC's optimum is such an allocation depends on the instance:
        # the solver's instance first, then generic instances of the same configuration
        rng = random.Random(4242)
        tried = []
        need = cfg["pop"] * cfg["kcals_daily"] * 30 / 1e9

        def scaled(v, k):
            # the same generic instance with every supply multiplied by k: scarce instances (a few percent fed) and abundant ones (well above 100 percent fed)
            # exercise different constraints (the absolute intake caps only bind above 100 percent)
            out = {}
            for key, x in v.items():
                if key == "area":
                    out[key] = x
                elif key == "pins":
                    out[key] = {kk: [y * k for y in vv] for kk, vv in x.items()}
                else:
                    out[key] = [y * k for y in x] if isinstance(x, list) else x * k
            return out
        generic = [_concrete_vals(cfg, rng) for _ in range(3)]
        for v in [vals] + generic + [scaled(generic[0], need / 20.0), scaled(generic[1], need / 4.0), scaled(generic[2], need / 4.0)]:
            try:
                pf, X = Q.run_real(cfg, v, cx["growth"])
            except AssertionError as e:
                tried.append("real optimiser failed: %s" % str(e)[:60])
                continue
            bad = Q.float_audit(cfg, v, cx["growth"], X) + [b for b in Q.spec_violations(cfg, v, cx["growth"], X) if not b.startswith("UNDECIDED")]
            if bad:
                return dict(reproduced=True, what="CBC's allocation violates: %s" % "; ".join(bad[:3]), inputs=dict(case=case, supplies=v), observed=dict(reported=pf), key="equiv/code=>spec/" + _kind(cx["info"]))
            tried.append("CBC's optimum (%r) satisfies the specification" % pf)
        return dict(reproduced=False, what="%s is not implied by the code's constraints, but CBC's optimum stayed inside the specification on %d instances: %s" % (cx["info"], len(tried), tried))
    try:
        pf, X = Q.run_real(cfg, vals, cx["growth"])
    except AssertionError as e:
        if cx["direction"] == "spec_implies_code":
            return dict(reproduced=True, what="the real optimiser reports failure on supplies for which a physically feasible allocation exists (%s): %s" % (cx["info"], str(e)[:80]),
                        inputs=dict(case=case, supplies=vals, feasible_allocation=cx.get("alloc")), key="equiv/spec=>code/infeasible/" + _kind(cx["info"]))
        return dict(reproduced=False, what="real optimiser failed: %s" % e)
    if cx["direction"] == "code_implies_spec":
        bad = Q.float_audit(cfg, vals, cx["growth"], X)
        return dict(reproduced=bool(bad), what="CBC's allocation violates: %s" % "; ".join(bad[:3]) if bad else "CBC's optimum passes the audit on this instance", inputs=dict(case=case, supplies=vals),
                    observed=dict(percent_fed=pf), key="equiv/code=>spec/" + _kind(cx["info"]))
    # spec => code: is the optimum of the spec LP on this instance better than what the code reports?  decide with z3 on the concrete instance
    return dict(reproduced=False, what="code constraint %s is not implied by the physical specification; CBC reports %r on the witness instance (no strictly better physical allocation exhibited)" % (cx["info"], pf))


# ----------------------------------------------------------------------------------------------- (0) stand-in vs real PuLP
def _concrete_vals(cfg, rng):
    N = cfg["N"]
    r = lambda lo, hi: [round(rng.uniform(lo, hi), 6) for _ in range(N)]
    vals = dict(sf0=round(rng.uniform(0, 500), 6), slaughter=r(0, 20), crops=r(0, 60), scp=r(0, 10), cs=r(0, 10), milk=r(0, 5), gh=r(0, 5), fish=r(0, 5), feed=r(0, 8), biofuel=r(0, 4),
                max_feed=r(0, 30), max_biofuel=r(0, 10), area=sorted(r(0.003, 3.0)))
    if cfg["opt"] == "to_animals":
        vals["pins"] = {k: r(0, 6) for k in ("outdoor_crops", "stored_food", "meat", "methane_scp", "cellulosic_sugar", "seaweed")}
    return vals


def worker_standin(case, seed):
    cfg = LM.default_cfg(**case)
    rng = random.Random(seed * 7919 + zlib.crc32(json.dumps(case, sort_keys=True).encode()) % 100000)
    M = LM.build(cfg)
    vals = _concrete_vals(cfg, rng)
    d = CP.real_first_stage_dict(cfg, vals, M.growth)
    X, bounds, cons, obj = CP.dict_to_z3(d)
    # substitute the concrete supplies into the stand-in formulas
    sub = []
    for k, v in M.S.items():
        if k == "pins":
            for kk, vv in v.items():
                sub += [(x, LM.q(vals["pins"][kk][i])) for i, x in enumerate(vv)]
        elif isinstance(v, list):
            sub += [(x, LM.q(vals[k][i])) for i, x in enumerate(v) if z3.is_expr(x)]
        else:
            sub.append((v, LM.q(vals[k])))
    obligations = {}
    cex = []
    names_code, names_real = set(M.cons), set(cons)
    ob = obligations.setdefault("same constraint names as real PuLP", dict(unsat=0, sat=0, unknown=0))
    ob["unsat" if names_code == names_real else "sat"] += 1
    if names_code != names_real:
        cex.append(dict(obligation="same constraint names as real PuLP", model={}, info="only in stand-in: %s; only in PuLP: %s" % (sorted(names_code - names_real)[:4], sorted(names_real - names_code)[:4])))
    realvars = {v["name"]: v for v in d["variables"]}
    ob = obligations.setdefault("same variables and bounds as real PuLP", dict(unsat=0, sat=0, unknown=0))
    used = {v.name: v for v in M.vars if v.name in realvars}
    okb = all(realvars[n]["lowBound"] == used[n].lowBound and realvars[n]["upBound"] == used[n].upBound for n in used) and set(realvars) <= set(v.name for v in M.vars)
    ob["unsat" if okb else "sat"] += 1
    allx = [v.z for v in M.vars]
    box = [x >= 0 for x in allx]
    Mt = z3.Sum(allx) + 1
    ent = Q.Entail(box, seed=seed)
    for n in sorted(names_code & names_real):
        a = z3.substitute(M.cons[n], *sub)
        b = cons[n]
        k = "stand-in constraint equivalent to the real PuLP constraint"
        ob = obligations.setdefault(k, dict(unsat=0, sat=0, unknown=0))
        r1, m1 = ent.check(Q.relax(b, Mt), extra=[a])
        r2, m2 = ent.check(Q.relax(a, Mt), extra=[b])
        r = "unsat" if (r1 == "unsat" and r2 == "unsat") else ("unknown" if "unknown" in (r1, r2) else "sat")
        ob[r] += 1
        if r == "sat" and len(cex) < 3:
            cex.append(dict(obligation=k, model={}, info="%s: stand-in %s vs PuLP %s" % (n, str(z3.simplify(a))[:200], str(z3.simplify(b))[:200])))
    k = "objective is the same variable"
    ob = obligations.setdefault(k, dict(unsat=0, sat=0, unknown=0))
    ob["unsat" if z3.eq(z3.simplify(obj), z3.simplify(M.objective)) else "sat"] += 1
    return _summary(ent, obligations, cex, 0, dict(constraints=len(cons)))


def replay_standin(case, cx):
    return dict(reproduced=False, what="ENCODING ERROR: the PuLP stand-in disagrees with real PuLP: %s" % cx.get("info"))


# ----------------------------------------------------------------------------------------------- (ii) CBC's value is the optimum, per captured instance
def _scenarios():
    import yaml
    out = {}
    for f in ("argentina.yaml", "baseline_USA.yaml"):
        cfg = yaml.safe_load(open("/repo/scenarios/" + f)) if False else yaml.safe_load(open(vlib.REPO + "/scenarios/" + f))
        for name, sim in cfg["simulations"].items():
            out[f + ":" + name] = sim
    return out


def worker_instance(case, seed):
    sc = _scenarios()[case["scenario"]]
    t0 = time.time()
    rounds, res = CP.capture_country(case["country"], sc, case["NM"])
    obligations, cex = {}, []
    tq = 0.0
    nq = 0
    counts = dict(unsat=0, sat=0, unknown=0)
    for i, c in enumerate(rounds):
        X, bounds, cons, obj = CP.dict_to_z3(c.first_stage)
        s = z3.SolverFor("QF_LRA")
        s.add(bounds)
        s.add(list(cons.values()))
        v = c.obj
        eps = 1e-4
        slack = eps * abs(v) + 1e-7
        for nm, goal, want in (("no feasible point beats CBC's value by more than 1e-4 (%s round)" % c.type, obj >= CP.rat(v + slack), "unsat"),
                               ("a feasible point reaches CBC's value within 1e-4 (%s round)" % c.type, obj >= CP.rat(v - slack), "sat")):
            t = time.time()
            r = Q.hard_check(s, goal, case.get("timeout_s", 150))
            tq += time.time() - t
            nq += 1
            counts[r] += 1
            ob = obligations.setdefault(nm, dict(unsat=0, sat=0, unknown=0))
            if r == "unknown":
                ob["unknown"] += 1
            elif r == want:
                ob["unsat"] += 1      # discharged
            else:
                ob["sat"] += 1
                better = None
                if r == "sat":
                    # how much better: bisect with a few more bounded queries (the binary prints no model by default)
                    lo, hi = v + slack, v + max(1.0, abs(v))
                    for _ in range(12):
                        mid = (lo + hi) / 2
                        if Q.hard_check(s, obj >= CP.rat(mid), case.get("timeout_s", 150)) == "sat":
                            lo = mid
                        else:
                            hi = mid
                    better = lo
                cex.append(dict(obligation=nm, model={}, info="round %d (%s): CBC reports %r; exact LP %s" % (i + 1, c.type, v, ("has a feasible point with objective %r" % better) if better is not None else "cannot reach it"),
                                cbc=v, better=better))
    st = dict(paths=len(rounds), completed=len(rounds), pruned_by_code_assertions=0, pruned_other=0, queries=nq, solver_s=round(tq, 2), branches=0, unsat=counts["unsat"], sat=counts["sat"],
              unknown=counts["unknown"], forks=0, rounds=len(rounds), lp_sizes=[(len(c.first_stage["variables"]), len(c.first_stage["constraints"])) for c in rounds], pipeline_s=round(time.time() - t0 - tq, 1))
    return dict(stats=st, obligations=obligations, cex=cex, errors=[], n_errors=0, canary_bad=0 if rounds else 1)


def replay_instance(case, cx):
    # the instance IS a real run: CBC's number and the exact LP are both taken from it; the discrepancy is already about the real code
    return dict(reproduced=True, what="real run %s: %s" % (case, cx["info"]), inputs=dict(case=case), observed=dict(cbc=cx.get("cbc"), exact=cx.get("better")),
                key="instance/" + cx["obligation"][:50])


def main(tier, seed, only=None):
    rep = vlib.Report(PID, tier, seed)
    thorough = tier == "thorough"
    full = dict.fromkeys(FLAGS, True)
    core = dict(SEAWEED=False, OUTDOOR_GROWING=True, STORED_FOOD=True, MEAT=True, METHANE_SCP=False, CELLULOSIC_SUGAR=False)
    import itertools
    eq = []
    allsets = [dict(zip(FLAGS, bits)) for bits in itertools.product([True, False], repeat=6)]
    for fl in (allsets if thorough else allsets[::3] + [full]):
        for opt in ("to_humans", "to_animals"):
            for store in (True, False):
                for d in ("code_implies_spec", "spec_implies_code"):
                    eq.append(dict(N=4 if not thorough else 5, opt=opt, store=store, flags=fl, direction=d))
    for N in ([9, 14] if not thorough else [9, 14, 15]):
        for fl in ([full] if not thorough else [full, core]):
            for opt in ("to_humans", "to_animals"):
                for store in (True, False):
                    for d in ("code_implies_spec", "spec_implies_code"):
                        if not thorough and N == 14 and d == "code_implies_spec":
                            continue      # ~5 min per case; the 14-month code => audit direction runs in C01's quick tier, the full one in the thorough tier
                        eq.append(dict(N=N, opt=opt, store=store, flags=fl, direction=d, rotation=False))
    from harness.C01_allocations import DISTINCT_WASTE
    for opt in ("to_humans", "to_animals"):
        for store in (True, False):
            for d in ("code_implies_spec", "spec_implies_code"):
                eq.append(dict(N=5, opt=opt, store=store, flags=full, direction=d, rotation=False, retail_by=DISTINCT_WASTE))
    # the feed round pins human consumption within a window that depends on the population (1e-4 under 10 million people, 1e-5 otherwise): both sides of that branch
    for pop in (5e5, 9.9e6):
        for store in (True, False):
            for d in ("code_implies_spec", "spec_implies_code"):
                eq.append(dict(N=5, opt="to_animals", store=store, flags=full, direction=d, rotation=False, pop=pop))
    st = [dict(N=n, opt=o, store=s, flags=f, rotation=r, retail=w) for n in (3, 14) for o in ("to_humans", "to_animals") for s in (True, False) for f in (full, core)
          for (r, w) in ((False, 6.08), (True, 24.98)) if not (r and n == 3)]
    st += [dict(N=5, opt=o, store=s, flags=full, rotation=False, retail=6.08, retail_by=DISTINCT_WASTE) for o in ("to_humans", "to_animals") for s in (True, False)]
    sc = _scenarios()
    names = sorted(sc)
    inst = []
    picks = [("ARG", n) for n in names if n.startswith("argentina")] + [("USA", n) for n in names if n.startswith("baseline_USA")][:1]
    for c, n in picks:
        if not thorough and n.endswith("more_area"):
            continue        # the largest captured LP (seaweed + expansion): ~10 s per exact query on an idle machine, kept for the thorough tier
        # thorough: 120 months for the runs without resilient foods (light LPs), 72 months for the resilient ones (exact queries on their LPs grow quickly with the horizon)
        inst.append(dict(country=c, scenario=n, NM=48 if not thorough else (120 if "resilient" not in n else (48 if n.endswith("more_area") else 72)), timeout_s=150 if not thorough else 900))      # more_area at 72 months: one exact query ran past 900 s
    if not thorough:
        inst += [dict(country=c, scenario=n, NM=72) for c, n in (("FRA", names[0]), ("NZL", names[-1]), ("IND", names[1 % len(names)]), ("JPN", names[2 % len(names)]))]
    if thorough:
        rng = random.Random(seed)
        import pandas as pd
        codes = list(pd.read_csv(vlib.REPO + "/data/no_food_trade/computer_readable_combined.csv")["iso3"])
        light = [n for n in names if "resilient" not in n]
        for c in rng.sample(codes, 12):
            inst.append(dict(country=c, scenario=light[rng.randrange(len(light))], NM=72, timeout_s=900))
    groups = [
        dict(name="standin_equals_real_pulp", fn="worker_standin", cases=st, replay=replay_standin, functions=["Optimizer.add_variables_and_constraints_to_model run twice: with real PuLP and with the stand-in"],
             bounds="N in {3,14}, both round types, storage on/off, 2 flag sets, concrete seeded supplies", symbolic="LP variables (supplies concrete)", assumptions=["relaxed equivalence 1e-9 (PuLP folds coefficients in floats)"],
             stubs=["lpsym/standin.py"], outside=[]),
        dict(name="feasible_set_equals_specification", fn="worker_equiv", cases=eq, replay=replay_equiv,
             functions=["Optimizer.add_variables_and_constraints_to_model and every add_*_to_model it calls (as C01)", "add_percentage_intake_constraints", "add_maximize_min_month_objective_to_model",
                        "add_maximize_sum_total_feed_used_by_animals", "assign_predetermined_human_consumption_of_foods"],
             bounds="N=4 with %d ADD_* combinations; N=14 with all foods; both round types; storage on/off; both directions" % (len(allsets) if thorough else len(allsets[::3]) + 1),
             symbolic="every supply and every allocation", assumptions=["supplies >= 0", "coefficients concrete", "epsilon-relaxed entailment 1e-9", "the specification LP in lpsym/spec.py is the trusted statement of 'physically feasible'"],
             stubs=["lpsym/standin.py (validated in group standin_equals_real_pulp)"], outside=["horizons beyond 14-15 months for the parametric statement"]),
        dict(name="cbc_value_is_the_optimum", fn="worker_instance", cases=inst, replay=replay_instance, functions=["ScenarioRunnerNoTrade.run_model_no_trade (real run)", "Optimizer.run_optimizations_on_constraints (wrapped, LpProblem.to_dict captured)"],
             bounds="countries/presets %s at %s months; all three rounds each; every exact query under a hard wall-clock limit (150 s quick, 900 s thorough)" % (picks, sorted({c["NM"] for c in inst})), symbolic="every LP variable of the captured first-stage model (exact rationals of the float coefficients)",
             assumptions=["tolerance 1e-4 relative (CBC runs with gapRel=1e-5)"], stubs=[], outside=["instances not captured"], min_completed=1),
    ]
    vlib.run_groups(rep, MOD, groups, seed, only)
    return rep.finish()


def replay_file(path):
    rec = json.load(open(path))
    print(json.dumps(rec, indent=1)[:3000])
    return 0
