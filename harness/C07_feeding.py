"""C07 Herd feeding accounts for energy and starvation consistently.

Real code under SYMX: AnimalSpecies.feed_the_species / reset_NE_balance / net_energy_required_per_species,
AnimalPopulation.feed_animals, AnimalPopulation.calculate_starving_animals_after_feed,
AnimalModelBuilder.get_optimal_next_animal_to_feed.  Species objects are built by the real main() from the shipped tables.
"""
import json
import numpy as np
import z3

import vlib
from symx.engine import Engine, SymReal, SymBool, zsum, close, sb, implies, conj
from symx.npproxy import patched, STUBS
from harness import herd

PID = "C07"
MOD = "harness.C07_feeding"


def _mods():
    import src.food_system.animal_populations as ap
    import src.food_system.food as fd
    return ap, fd


def _food(fd, x):
    return fd.Food(x, 0, 0)


def _find(country, animal_type):
    animals, ruminants, co = herd.build(country, "baseline")
    a = next(x for x in animals if x.animal_type == animal_type)
    return a, a in ruminants, animals, ruminants


# ----------------------------------------------------------------------------- one species
def worker_one(case, seed):
    ap, fd = _mods()
    a, rum, _, _ = _find(case["country"], case["animal"])
    per_head = a.net_energy_required_per_month()
    eg, ef = a.digestion_efficiency["grass"], a.digestion_efficiency["feed"]
    E = Engine(seed=seed, max_paths=2000, query_timeout_ms=30000)
    E.prune_on = ()

    def h(E):
        g = E.real("grass")
        f = E.real("feed")
        E.assume(g >= 0)
        E.assume(f >= 0)
        E.assume(g <= 1e9)
        E.assume(f <= 1e9)
        if case["pop"] == "sym":
            pop = E.real("pop")
            E.assume(pop >= 0)
            E.assume(pop <= 1e11)
        else:
            pop = case["pop"]
        a.current_population = pop
        # whatever last month's feeding left in the fed count (the month loop never resets it): arbitrary
        a.population_fed = E.real("fed_last_month")
        E.assume(a.population_fed >= 0)
        E.assume(a.population_fed <= 1e11)
        a.population_starving_pre_slaughter = []
        with patched(ap, fd, isinstance_=True):
            a.reset_NE_balance()
            required = a.NE_balance.kcals
            G, F = _food(fd, g), _food(fd, f)
            for is_rum in ([rum] if not case.get("twice") else [rum, rum]):
                go, fo = a.feed_the_species(G, F, is_rum)
            ap.AnimalPopulation.calculate_starving_animals_after_feed([a])
        E.check("required energy = head count x per-head requirement", close(required, pop * per_head, 1e-12, 0))
        # the code mixes concrete float sub-computations (required/0.6 for a concrete herd) with symbolic terms: identities hold to an ulp,
        # so every comparison below carries tol = 1e-9 x required (DESIGN 3.1)
        tol = required * 1e-9 + 1e-15
        g_out, f_out = go.kcals, fo.kcals
        E.check("grass left in [0, supplied]", conj([g_out >= -tol, g_out <= g]))
        E.check("feed left in [0, supplied]", conj([f_out >= -tol, f_out <= f]))
        if not rum:
            E.check("non-ruminant leaves grass untouched", g_out == g)
        delivered = (g - g_out) * eg + (f - f_out) * ef
        E.check("net energy delivered <= required", delivered <= required + tol)
        owed = a.NE_balance.kcals
        E.check("energy still owed = required - delivered", conj([owed - (required - delivered) <= tol, (required - delivered) - owed <= tol]))
        E.check("energy still owed >= 0", owed >= 0)
        fed = a.population_fed
        starving = a.population_starving_pre_slaughter[-1]
        E.check("fed <= herd", fed <= pop)
        E.check("fed >= 0", fed >= 0)
        E.check("fed == herd when requirement met", implies(owed == 0, fed == pop))
        # otherwise the herd scaled by the delivered fraction (the code rounds to a whole animal): |fed - herd*min(1, delivered/required)| <= 1/2
        # (herd*delivered/required == delivered/per_head)
        scaled = delivered / per_head
        scaled = scaled if (scaled <= pop) else pop
        slack = 0.5 + pop * 1e-9 + 1e-9
        E.check("fed == herd x delivered fraction (rounded to a whole animal)", conj([fed - scaled <= slack, scaled - fed <= slack]))
        E.check("starving == herd - fed", starving == pop - fed)
        E.check("starving >= 0", starving >= 0)
    E.explore(h)
    return E.summary()


def replay_one(case, cx):
    ap, fd = _mods()
    case = case if isinstance(case, dict) else json.loads(case)
    a, rum, _, _ = _find(case["country"], case["animal"])
    m = vlib.model_floats(cx["model"])
    pop = m["pop"] if case["pop"] == "sym" else case["pop"]
    g, f = m["grass"], m["feed"]
    a.current_population = pop
    a.population_fed = m.get("fed_last_month", 0.0)
    a.population_starving_pre_slaughter = []
    a.reset_NE_balance()
    required = a.NE_balance.kcals
    per_head = a.net_energy_required_per_month()
    G, F = _food(fd, g), _food(fd, f)
    for is_rum in ([rum] if not case.get("twice") else [rum, rum]):
        go, fo = a.feed_the_species(G, F, is_rum)
    ap.AnimalPopulation.calculate_starving_animals_after_feed([a])
    eg, ef = a.digestion_efficiency["grass"], a.digestion_efficiency["feed"]
    delivered = (g - go.kcals) * eg + (f - fo.kcals) * ef
    fed = a.population_fed
    starving = a.population_starving_pre_slaughter[-1]
    tol = 1e-9 * (1 + abs(required))
    bad = []
    if not (-tol <= go.kcals <= g + tol):
        bad.append("grass left outside [0, supplied]")
    if not (-tol <= fo.kcals <= f + tol):
        bad.append("feed left outside [0, supplied]")
    if not rum and abs(go.kcals - g) > tol:
        bad.append("non-ruminant ate grass")
    if delivered > required + tol:
        bad.append("delivered more net energy than required")
    if fed > pop + 1e-6 * (1 + pop):
        bad.append("animals fed exceed herd")
    if fed < -1e-9:
        bad.append("animals fed negative")
    if delivered >= required - tol and abs(fed - pop) > 1e-6 * (1 + pop):
        bad.append("requirement met but fed != herd")
    if delivered < required - tol and per_head > 0 and abs(fed - delivered / per_head) > 0.5 + 1e-6 * (1 + pop):
        bad.append("fed is not herd x delivered fraction")
    if starving < -1e-6 * (1 + pop):
        bad.append("starving count negative")
    return dict(reproduced=bool(bad), what="feed_the_species(%s): %s" % (case["animal"], "; ".join(bad)),
                inputs=dict(country=case["country"], animal=case["animal"], ruminant=rum, herd=pop, grass=g, feed=f),
                observed=dict(fed=float(fed), starving=float(starving), grass_left=float(go.kcals), feed_left=float(fo.kcals), required=float(required), delivered=float(delivered)),
                key="feed_one/" + (bad[0] if bad else ""))


# ----------------------------------------------------------------------------- several species in priority order
def worker_many(case, seed):
    ap, fd = _mods()
    animals, ruminants, co = herd.build(case["country"], "baseline")
    sel = [a for a in animals if a.animal_type in case["animals"]]
    rums = [a for a in sel if a in ruminants]
    pops = [float(a.population[0]) * s for a, s in zip(sel, case.get("scale", [1.0] * len(sel)))]
    E = Engine(seed=seed, max_paths=5000, query_timeout_ms=30000)
    E.prune_on = ()

    def h(E):
        g = E.real("grass")
        f = E.real("feed")
        E.assume(g >= 0)
        E.assume(f >= 0)
        log = []
        for a, p in zip(sel, pops):
            a.current_population = p
            # whatever last month's feeding left behind (the month loop never resets it): arbitrary
            a.population_fed = E.real("fed_last_month_" + a.animal_type)
            E.assume(a.population_fed >= 0)
            E.assume(a.population_fed <= 2 * p)
            a.population_starving_pre_slaughter = []
            orig = type(a).feed_the_species

            def wrapped(grass_in, feed_in, is_ruminant=False, _a=a, _o=orig):
                gb, fb = grass_in.kcals, feed_in.kcals
                r = _o(_a, grass_in, feed_in, is_ruminant)
                log.append((_a, gb, fb, r[0].kcals, r[1].kcals, is_ruminant))
                return r
            a.feed_the_species = wrapped
        try:
            with patched(ap, fd, isinstance_=True):
                fo, go = ap.AnimalPopulation.feed_animals(sel, rums, _food(fd, f), _food(fd, g))
                ap.AnimalPopulation.calculate_starving_animals_after_feed(sel)
        finally:
            for a in sel:
                del a.feed_the_species
        E.check("every species served exactly once, in list order", [x[0] for x in log] == sel)
        # concrete herd sizes make required/0.6 a concrete float computation: identities hold to an ulp -> tol (DESIGN 3.1)
        tol = sum(a.net_energy_required_per_month() * p for a, p in zip(sel, pops)) * 1e-9 + 1e-15
        E.check("feed left in [0, supplied]", conj([fo.kcals >= -tol, fo.kcals <= f]))
        E.check("grass left in [0, supplied]", conj([go.kcals >= -tol, go.kcals <= g]))
        tg = zsum([x[1] - x[3] for x in log])
        tf = zsum([x[2] - x[4] for x in log])
        E.check("grass taken by species adds up to grass used", tg == g - go.kcals)
        E.check("feed taken by species adds up to feed used", tf == f - fo.kcals)
        for k, (a, gb, fb, ga, fa, isr) in enumerate(log):
            req = a.net_energy_required_per_month() * a.current_population
            dl = (gb - ga) * a.digestion_efficiency["grass"] + (fb - fa) * a.digestion_efficiency["feed"]
            E.check("delivered <= required (each species)", dl <= req + tol)
            E.check("grass-eligible exactly when the species table says ruminant (list built by main())", isr == (a.digestion_type == "ruminant"), info="%s is a %s" % (a.animal_type, a.digestion_type))
            if a.digestion_type != "ruminant":
                E.check("non-ruminant takes no grass", gb == ga)
            earlier_met = conj([x[0].NE_balance.kcals == 0 for x in log[:k]])
            earlier_rum_met = conj([x[0].NE_balance.kcals == 0 for x in log[:k] if x[5]])
            E.check("priority: feed reaches a species only if all earlier species are fully fed", implies(fb - fa > 0, earlier_met))
            E.check("priority: grass reaches a ruminant only if all earlier ruminants are fully fed", implies(gb - ga > 0, earlier_rum_met))
            E.check("fed in [0, herd]", conj([a.population_fed >= 0, a.population_fed <= a.current_population]))
            E.check("starving = herd - fed >= 0", conj([a.population_starving_pre_slaughter[-1] == a.current_population - a.population_fed,
                                                       a.population_starving_pre_slaughter[-1] >= 0]))
        for a in sel:
            req = a.net_energy_required_per_month() * a.current_population
            dl = zsum([(x[1] - x[3]) * a.digestion_efficiency["grass"] + (x[2] - x[4]) * a.digestion_efficiency["feed"] for x in log if x[0] is a] + [0])
            if req > 0:
                E.check("a species that receives no energy this month has nobody counted as fed (whatever was counted last month)", implies(dl <= 0, a.population_fed == 0), info=a.animal_type)
    E.explore(h)
    return E.summary()


def replay_many(case, cx):
    ap, fd = _mods()
    case = case if isinstance(case, dict) else json.loads(case)
    animals, ruminants, co = herd.build(case["country"], "baseline")
    sel = [a for a in animals if a.animal_type in case["animals"]]
    rums = [a for a in sel if a in ruminants]
    pops = [float(a.population[0]) * s for a, s in zip(sel, case.get("scale", [1.0] * len(sel)))]
    m = vlib.model_floats(cx["model"])
    g, f = m["grass"], m["feed"]
    served = {}
    for a, p in zip(sel, pops):
        a.current_population = p
        a.population_fed = m.get("fed_last_month_" + a.animal_type, 0.0)
        a.population_starving_pre_slaughter = []
        orig = type(a).feed_the_species

        def wrapped(grass_in, feed_in, is_ruminant=False, _a=a, _o=orig):
            gb, fb = float(grass_in.kcals), float(feed_in.kcals)
            r = _o(_a, grass_in, feed_in, is_ruminant)
            served[_a.animal_type] = served.get(_a.animal_type, 0.0) + (gb - float(r[0].kcals)) + (fb - float(r[1].kcals))
            return r
        a.feed_the_species = wrapped
    try:
        fo, go = ap.AnimalPopulation.feed_animals(sel, rums, _food(fd, f), _food(fd, g))
        ap.AnimalPopulation.calculate_starving_animals_after_feed(sel)
    finally:
        for a in sel:
            del a.feed_the_species
    bad = []
    for a in sel:
        if (a in ruminants) != (a.digestion_type == "ruminant"):
            bad.append("%s is a %s but main() %s it on the grass-eligible list" % (a.animal_type, a.digestion_type, "puts" if a in ruminants else "does not put"))
    for a in sel:
        if served.get(a.animal_type, 0.0) <= 0 and a.net_energy_required_per_month() * a.current_population > 0 and a.population_fed != 0:
            bad.append("%s received no energy this month but %r animals are counted as fed (left over from an earlier month)" % (a.animal_type, a.population_fed))
    tol = 1e-9 * (1 + f + g)
    if not (-tol <= fo.kcals <= f + tol) or not (-tol <= go.kcals <= g + tol):
        bad.append("resources left outside [0, supplied]")
    owed_before = False
    for a in sel:
        req = a.net_energy_required_per_month() * a.current_population
        if a.population_fed > a.current_population * (1 + 1e-9) + 1e-6 or a.population_fed < 0:
            bad.append("%s: fed %r outside [0, herd %r]" % (a.animal_type, a.population_fed, a.current_population))
        if a.NE_balance.kcals < -tol:
            bad.append("%s: delivered more than required" % a.animal_type)
        if owed_before and a.NE_balance.kcals < req - tol and a not in rums:
            bad.append("%s received feed although an earlier species is still owed energy" % a.animal_type)
        if a.NE_balance.kcals > tol:
            owed_before = True
    return dict(reproduced=bool(bad), what="feed_animals: " + "; ".join(bad[:3]), inputs=dict(country=case["country"], animals=[a.animal_type for a in sel], herds=pops, grass=g, feed=f),
                observed={a.animal_type: dict(fed=float(a.population_fed), owed=float(a.NE_balance.kcals)) for a in sel}, key="feed_many/" + ("fed outside [0, herd]" if any("outside [0, herd" in b for b in bad) else (bad[0].split(":")[-1].strip()[:40] if bad else "")))


# ----------------------------------------------------------------------------- priority order
CLASS_KEYS = ["KCALS_PER_CHICKEN", "KCALS_PER_PIG", "KCALS_PER_SMALL_ANIMAL", "KCALS_PER_MEDIUM_ANIMAL", "KCALS_PER_LARGE_ANIMAL"]


def _class_key(a):
    if a.animal_type == "chicken":
        return "KCALS_PER_CHICKEN"
    if a.animal_type == "pig":
        return "KCALS_PER_PIG"
    return {"small": "KCALS_PER_SMALL_ANIMAL", "medium": "KCALS_PER_MEDIUM_ANIMAL", "large": "KCALS_PER_LARGE_ANIMAL"}[a.animal_size]


def worker_order(case, seed):
    ap, fd = _mods()
    animals, ruminants, co = herd.build(case["country"], "baseline")
    sel = {a.animal_type: a for a in animals if a.animal_type in case["animals"]}
    attrs = ap.AnimalDataReader.read_animal_nutrition_data("species_attributes.csv")
    E = Engine(seed=seed, max_paths=5000)
    E.prune_on = ()

    def h(E):
        kd = {}
        for k in CLASS_KEYS:
            kd[k] = E.real(k)
            E.assume(kd[k] > 0)
            E.assume(kd[k] <= 1)
        out = ap.AnimalModelBuilder.get_optimal_next_animal_to_feed(dict(sel), kd, attrs)
        E.check("same species, none lost or duplicated", sorted(out.keys()) == sorted(sel.keys()))
        keys = []
        for name, a in out.items():
            hrs = float(attrs.loc[a.animal_type]["animal_slaughter_hours"])
            key = (kd[_class_key(a)] + a.net_energy_required_per_month() / a.digestion_efficiency["feed"]) / hrs
            keys.append(key)
        for i in range(len(keys) - 1):
            E.check("order is descending in (meat kcal + feed saved) per slaughter hour", keys[i] >= keys[i + 1] * (1 - 1e-12))
    E.explore(h)
    return E.summary()


def replay_order(case, cx):
    ap, fd = _mods()
    case = case if isinstance(case, dict) else json.loads(case)
    animals, ruminants, co = herd.build(case["country"], "baseline")
    sel = {a.animal_type: a for a in animals if a.animal_type in case["animals"]}
    attrs = ap.AnimalDataReader.read_animal_nutrition_data("species_attributes.csv")
    kd = vlib.model_floats(cx["model"])
    out = ap.AnimalModelBuilder.get_optimal_next_animal_to_feed(dict(sel), kd, attrs)
    keys = [(kd[_class_key(a)] + a.net_energy_required_per_month() / a.digestion_efficiency["feed"]) / float(attrs.loc[a.animal_type]["animal_slaughter_hours"]) for a in out.values()]
    bad = sorted(out.keys()) != sorted(sel.keys()) or any(keys[i] < keys[i + 1] * (1 - 1e-9) for i in range(len(keys) - 1))
    return dict(reproduced=bool(bad), what="get_optimal_next_animal_to_feed: order not descending in net kcals per slaughter hour", inputs=dict(kcals_per_head=kd, animals=list(sel)),
                observed=dict(order=list(out.keys()), keys=keys), key="order/not descending")


# -----------------------------------------------------------------------------
def validate_encoding(rep):
    """SYMX on concrete rationals vs the plain float run of the same real function."""
    ap, fd = _mods()
    a, rum, _, _ = _find("USA", "meat_cattle")
    rng = np.random.RandomState(7)
    ok = 0
    for _ in range(12):
        pop = float(rng.rand() * 1e6)
        need = a.net_energy_required_per_month() * pop
        g = float(rng.rand() * need)
        f = float(rng.rand() * need)
        a.current_population = pop
        a.reset_NE_balance()
        go, fo = a.feed_the_species(_food(fd, g), _food(fd, f), rum)
        ref = (float(go.kcals), float(fo.kcals), float(a.population_fed))
        got = []
        E = Engine()

        def h(E):
            a.current_population = pop
            with patched(ap, fd, isinstance_=True):
                a.reset_NE_balance()
                go, fo = a.feed_the_species(_food(fd, SymReal(z3.RealVal(repr(g)))), _food(fd, SymReal(z3.RealVal(repr(f)))), rum)
            got.append((float(go.kcals), float(fo.kcals), float(a.population_fed)))
        E.explore(h)
        if E.errors or not got or not np.allclose(got[0], ref, rtol=1e-9, atol=1e-9):
            rep.fail_inconclusive("encoding validation failed: SYMX %r vs real %r %s" % (got, ref, E.errors[:1]))
            return
        ok += 1
    rep.note_validation(ok)


def main(tier, seed, only=None):
    rep = vlib.Report(PID, tier, seed)
    thorough = tier == "thorough"
    ap, fd = _mods()
    countries, missing = herd.species_cover(4 if not thorough else 8)
    try:
        validate_encoding(rep)
    except Exception as e:   # noqa  the real code raised on a concrete validation sample: the symbolic groups still run and decide; without a violation the run is inconclusive
        rep.fail_inconclusive("concrete validation of the encoding could not run: %s: %s" % (type(e).__name__, str(e)[:200]))
    one, seen = [], set()
    many, order = [], []
    for c in countries + (["WOR"] if thorough else []):
        animals, ruminants, co = herd.build(c, "baseline")
        names = [a.animal_type for a in animals]
        for a in animals:
            if a.animal_type in seen and not thorough:
                continue
            seen.add(a.animal_type)
            p0 = float(a.population[0])
            for pv in [p0, 93.75, 0.0] + ([p0 * 1e-3, 0.3, 1.0, 2.5, p0 * 7.3] if thorough else []):
                one.append(dict(country=c, animal=a.animal_type, pop=pv))
        # consecutive triples in the real priority order (covers ruminant / non-ruminant neighbours)
        step = 1 if thorough else 2
        for i in range(0, max(1, len(names) - 2), step):
            many.append(dict(country=c, animals=names[i:i + 3]))
            many.append(dict(country=c, animals=names[i:i + 3], scale=[1e-3, 1.0, 10.0]))
        rn = [a.animal_type for a in animals if a in ruminants][:2] + [a.animal_type for a in animals if a not in ruminants][:2]
        many.append(dict(country=c, animals=rn))
        for i in range(0, max(1, len(names) - 3), 2 if thorough else 4):
            order.append(dict(country=c, animals=names[i:i + 4]))
    stubs = STUBS + ["food.isinstance accepts SymReal as float"]
    groups = [
        dict(name="feed_one_species", fn="worker_one", cases=one, replay=replay_one,
             functions=["AnimalSpecies.feed_the_species", "AnimalSpecies.reset_NE_balance", "AnimalSpecies.net_energy_required_per_species", "AnimalPopulation.calculate_starving_animals_after_feed"],
             bounds="every species type present in countries %s (covers all head-count columns except %s); LSU, regional factor, digestion efficiencies concrete from the shipped tables; "
                    "herd size enumerated: table value, 93.75, 0 (thorough: also x1e-3, x7.3, 0.3, 1, 2.5)" % (countries, missing or "none"),
             symbolic="grass and feed supplied (>= 0, <= 1e9 billion kcal)", assumptions=["grass, feed non-negative"], stubs=stubs,
             outside=["herd sizes other than the enumerated ones (a symbolic herd size makes fed = round(p/(k*herd)*herd) non-linear integer arithmetic: z3 returns unknown)",
                      "tie-breaking of round() at exact .5", "IEEE rounding"]),
        dict(name="feed_in_priority_order", fn="worker_many", cases=many, replay=replay_many,
             functions=["AnimalPopulation.feed_animals", "AnimalSpecies.feed_the_species", "AnimalPopulation.calculate_starving_animals_after_feed"],
             bounds="3-4 species at a time in the real priority order of countries %s; herd sizes concrete (table value x {1, 1e-3/1/10})" % countries,
             symbolic="grass and feed supplied", assumptions=["grass, feed non-negative"], stubs=stubs, outside=["more than 4 species in one query", "symbolic herd sizes in the multi-species run"]),
        dict(name="priority_order", fn="worker_order", cases=order, replay=replay_order, functions=["AnimalModelBuilder.get_optimal_next_animal_to_feed", "AnimalSpecies.net_energy_required_per_month"],
             bounds="4 species at a time; slaughter hours, LSU, efficiencies from the tables", symbolic="the five per-head meat energy values (0,1]", assumptions=[], stubs=[], outside=["more than 4 species per sort"]),
    ]
    vlib.run_groups(rep, MOD, groups, seed, only)
    rep.extra["countries"] = countries
    return rep.finish()


def replay_file(path):
    rec = json.load(open(path))
    print(json.dumps(rec, indent=1)[:3000])
    return 0
