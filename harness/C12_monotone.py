"""C12 More supply never feeds fewer people, and scale does not matter.

Witness-map implications over the LP built by the real code with symbolic supplies (LPSYM):
    F_code(x, s)  and  delta >= 0   |=   F_code(w(x, delta), s (+) delta)   with the same objective value,
i.e. every feasible allocation of the original instance maps to a feasible allocation of the perturbed instance that feeds at least as
many people, hence the optimum cannot drop.  All QF_LRA.  A failing implication is replayed by solving both instances with the real optimiser.
"""
import json
import re
import z3

import vlib
from lpsym import model as LM
from lpsym import spec as SP
from lpsym import queries as Q

PID = "C12"
MOD = "harness.C12_monotone"
FLAGS = LM.FOODS
q = LM.q
zz = LM.zz


def _kind(name):
    name = re.sub(r"_\d+_Constraint$", "_<month>_Constraint", name)
    return re.sub(r"Month_\d+_", "Month_<m>_", name)


def _var(M, key, m):
    v = M.V[key][m]
    return v.z if hasattr(v, "z") else None


def _bump(sub, M, key, m, amount):
    z = _var(M, key, m)
    if z is not None:
        sub.append((z, z + amount))


def witness(M, kind, m0, d):
    """substitution (supply symbols and LP variables -> new terms) for perturbation `kind` of month m0 by d >= 0"""
    cfg, S, N = M.cfg, M.S, M.cfg["N"]
    net = q(1 - cfg["retail"] / 100) if False else (q(1) / LM.W(cfg))      # eaten per unit drawn
    need = q(cfg["pop"]) * q(cfg["kcals_daily"]) * 30 / q(1e9)
    pct = lambda x: x / need * 100
    sub = []
    if kind == "stored_food":
        sub.append((S["sf0"], S["sf0"] + d))
        _bump(sub, M, "stored_food_start", 0, d)
        _bump(sub, M, "stored_food_to_humans", 0, d * net)
        _bump(sub, M, "consumed_kcals", 0, pct(d * net))
    elif kind == "crops":
        sub.append((S["crops"][m0], S["crops"][m0] + d))
        _bump(sub, M, "crops_food_consumed", m0, d)
        _bump(sub, M, "crops_food_to_humans", m0, d * net)
        _bump(sub, M, "consumed_kcals", m0, pct(d * net))
    elif kind == "slaughter":
        sub.append((S["slaughter"][m0], S["slaughter"][m0] + d))
        _bump(sub, M, "meat_eaten", m0, d * net)
        _bump(sub, M, "consumed_kcals", m0, pct(d * net))
        if cfg["store"]:
            for j in range(0, m0 + 1):
                _bump(sub, M, "meat_start", j, d)
            for j in range(0, m0):
                _bump(sub, M, "meat_end", j, d)
    elif kind in ("scp", "cs", "area", "max_feed", "max_biofuel"):
        sub.append((S[kind][m0], S[kind][m0] + d))        # only ever an upper bound: the same allocation stays feasible
    elif kind in ("milk", "fish", "gh"):
        sub.append((S[kind][m0], S[kind][m0] + d))
        _bump(sub, M, "consumed_kcals", m0, pct(d))
    else:
        raise ValueError(kind)
    return sub


def worker_supply(case, seed):
    cfg = LM.default_cfg(**{k: v for k, v in case.items() if k not in ("kind", "months")})
    M = LM.build(cfg)
    N = cfg["N"]
    d = z3.Real("delta")
    hyps = list(M.cons.values()) + M.bounds + [c for c in M.sup if "built_area" not in str(c) or case["kind"] != "area"] + [d >= 0]
    Mt = Q.scale_term(M, [d])
    ent = Q.Entail(hyps, seed=seed)
    canary = 0 if ent.satisfiable() == "sat" else 1
    obligations, cex = {}, []
    for m0 in case["months"]:
        sub = witness(M, case["kind"], m0, d)
        changed = {str(a) for a, b in sub}
        for name, c in M.cons.items():
            k = "more %s: %s stays satisfied by the witness allocation" % (case["kind"], _kind(name))
            ob = obligations.setdefault(k, dict(unsat=0, sat=0, unknown=0))
            c2 = z3.substitute(c, *sub)
            if z3.eq(c2, c):
                ob["unsat"] += 1
                continue
            r, m = ent.check(Q.relax(c2, Mt))
            ob[r] += 1
            if r == "sat" and not any(x["obligation"] == k for x in cex):
                vals = Q.model_values(M, m)
                dv = float(m.eval(d, model_completion=True).as_fraction())
                cex.append(dict(obligation=k, model={}, info="%s month %d delta %r breaks %s" % (case["kind"], m0, dv, name), vals=[vals], growth=M.growth, kind=case["kind"], m0=m0, delta=max(dv, 1e-3)))
    st = dict(paths=len(case["months"]), completed=len(case["months"]), pruned_by_code_assertions=0, pruned_other=0, queries=ent.queries, solver_s=round(ent.solver_s, 3), branches=0,
              unsat=ent.counts["unsat"], sat=ent.counts["sat"], unknown=ent.counts["unknown"], forks=0)
    return dict(stats=st, obligations=obligations, cex=cex, errors=[], n_errors=0, canary_bad=canary)


def _perturb(vals, kind, m0, delta):
    import copy
    v2 = copy.deepcopy(vals)
    if kind == "stored_food":
        v2["sf0"] += delta
    else:
        v2[{"crops": "crops", "slaughter": "slaughter"}.get(kind, kind)][m0] += delta
    return v2


def replay_supply(case, cx):
    case = case if isinstance(case, dict) else json.loads(case)
    cfg = LM.default_cfg(**{k: v for k, v in case.items() if k not in ("kind", "months")})
    vals = cx["vals"][0]
    worst = None
    for delta in (cx["delta"], 1.0, 10.0):
        try:
            pf1, X1 = Q.run_real(cfg, vals, cx["growth"])
        except AssertionError as e:
            return dict(reproduced=False, what="base instance is infeasible for the real optimiser: %s" % e)
        try:
            pf2, X2 = Q.run_real(cfg, _perturb(vals, cx["kind"], cx["m0"], delta), cx["growth"])
        except AssertionError as e:
            return dict(reproduced=True, what="adding %r to %s[%d] makes the real optimiser FAIL where it succeeded before (%s)" % (delta, cx["kind"], cx["m0"], str(e)[:60]),
                        inputs=dict(case=case, supplies=vals, delta=delta), key="supply/%s/becomes infeasible" % cx["kind"])
        if pf2 < pf1 * (1 - 1e-6) - 1e-9:
            return dict(reproduced=True, what="adding %r to %s[%d] lowers the optimum from %r to %r" % (delta, cx["kind"], cx["m0"], pf1, pf2), inputs=dict(case=case, supplies=vals, delta=delta),
                        observed=dict(before=pf1, after=pf2), key="supply/%s/optimum drops" % cx["kind"])
        worst = (pf1, pf2)
    return dict(reproduced=False, what="witness map fails (%s) but the real optimum does not drop on the instance: %r" % (cx["info"], worst))


# --------------------------------------------------------------------------------- waste, charge, scale: second model with changed coefficients
def worker_two_models(case, seed):
    base = {k: v for k, v in case.items() if k not in ("kind", "to", "lam", "k")}
    cfg1 = LM.default_cfg(**base)
    M1 = LM.build(cfg1)
    N = cfg1["N"]
    need1 = q(cfg1["pop"]) * q(cfg1["kcals_daily"]) * 30 / q(1e9)
    K = q(cfg1["seaweed_kcals"])
    sub = []
    if case["kind"] == "waste":
        cfg2 = LM.default_cfg(**dict(base, retail=case["to"]))
        M2 = LM.build(cfg2)
        ratio = LM.W(cfg1) / LM.W(cfg2)          # >= 1: the same gross draw feeds more people
        add = [q(0)] * N
        for key, r in (("stored_food_to_humans", q(1)), ("crops_food_to_humans", q(1)), ("meat_eaten", q(1)), ("seaweed_to_humans", K)):
            for m in range(N):
                z = _var(M1, key, m)
                if z is not None:
                    sub.append((z, z * ratio))
                    add[m] = add[m] + z * (ratio - 1) * r
        for m in range(N):
            _bump(sub, M1, "consumed_kcals", m, add[m] / need1 * 100)
        label = "retail waste %s%% -> %s%%" % (cfg1["retail"], case["to"])
    elif case["kind"] == "charge":
        # feed (or biofuel) charge multiplied by lam in [0,1): components scaled, released stored food and crops go to people, released resilient food is left unused
        lam = q(case["lam"])
        which = case["which"]
        cfg2 = cfg1
        M2 = M1
        net = q(1) / LM.W(cfg1)
        for m in range(N):
            sub.append((M1.S[which][m], M1.S[which][m] * lam))
            rel = q(0)
            for pre, r in (("stored_food", q(1)), ("crops_food", q(1))):
                z = _var(M1, pre + "_" + which, m)
                if z is not None:
                    sub.append((z, z * lam))
                    h = _var(M1, pre + "_to_humans", m)
                    sub.append((h, h + z * (1 - lam) * net))
                    rel = rel + z * (1 - lam) * net
            for pre in ("methane_scp", "cellulosic_sugar", "seaweed"):
                z = _var(M1, pre + "_" + which, m)
                if z is not None:
                    sub.append((z, z * lam))
            _bump(sub, M1, "consumed_kcals", m, rel / need1 * 100)
        label = "%s charge x %s" % (which, case["lam"])
    else:
        k = q(case["k"])
        cfg2 = LM.default_cfg(**dict(base, pop=cfg1["pop"] * case["k"]))
        M2 = LM.build(cfg2)
        percent = {str(M1.V["objective_function"].z)} | {str(_var(M1, "consumed_kcals", m)) for m in range(N)}
        for v in M1.vars:
            if str(v.z) not in percent:
                sub.append((v.z, v.z * k))
        for s in LM.all_supply_symbols(M1):
            sub.append((s, s * k))
        label = "population and every supply x %s" % case["k"]
    hyps = list(M1.cons.values()) + M1.bounds + M1.sup
    Mt = Q.scale_term(M1)
    ent = Q.Entail(hyps, seed=seed)
    canary = 0 if ent.satisfiable() == "sat" else 1
    obligations, cex = {}, []
    same = set(M1.cons) == set(M2.cons)
    ob = obligations.setdefault("%s: both models have the same constraints" % case["kind"], dict(unsat=0, sat=0, unknown=0))
    ob["unsat" if same else "sat"] += 1
    for name, c in M2.cons.items():
        kname = "%s: %s holds for the witness allocation" % (label if case["kind"] != "scale" else "scale", _kind(name))
        ob = obligations.setdefault(kname, dict(unsat=0, sat=0, unknown=0))
        c2 = z3.substitute(c, *sub)
        if case["kind"] == "scale":
            # scaled constraints are compared after dividing by k: relax relative to the scaled magnitude
            r, m = ent.check(Q.relax(c2, Mt * q(max(1.0, case["k"]))))
        else:
            r, m = ent.check(Q.relax(c2, Mt))
        ob[r] += 1
        if r == "sat" and not any(x["obligation"] == kname for x in cex):
            cex.append(dict(obligation=kname, model={}, info="%s breaks %s" % (label, name), vals=[Q.model_values(M1, m)], growth=M1.growth, kind=case["kind"]))
    # bounds of scaled / changed variables
    for v in M1.vars:
        b2 = z3.substitute(v.z >= 0, *sub)
        if not z3.eq(b2, v.z >= 0):
            ob = obligations.setdefault("%s: witness allocation stays non-negative" % case["kind"], dict(unsat=0, sat=0, unknown=0))
            r, m = ent.check(Q.relax(b2, Mt))
            ob[r] += 1
    st = dict(paths=1, completed=1, pruned_by_code_assertions=0, pruned_other=0, queries=ent.queries, solver_s=round(ent.solver_s, 3), branches=0, unsat=ent.counts["unsat"], sat=ent.counts["sat"],
              unknown=ent.counts["unknown"], forks=0)
    return dict(stats=st, obligations=obligations, cex=cex, errors=[], n_errors=0, canary_bad=canary)


def replay_two_models(case, cx):
    case = case if isinstance(case, dict) else json.loads(case)
    base = {k: v for k, v in case.items() if k not in ("kind", "to", "lam", "k", "which")}
    cfg1 = LM.default_cfg(**base)
    # the failed witness obligation says the proof of monotonicity breaks at one constraint; whether the real optimum moves the wrong way depends on the instance.
    # The solver's instance is replayed first, then instances that make the optimiser lean on the food of the broken constraint, then generic ones.
    tried = []
    for vals in _instances(cfg1, cx):
        r = _replay_two_on(case, base, cfg1, vals, cx)
        if r["reproduced"]:
            return r
        tried.append(r["what"][-80:])
    return dict(reproduced=False, what="%s; not reproduced on %d instances: %s" % (cx["info"], len(tried), tried))


FOCUS = (("Meat", "slaughter"), ("Stored_Food", "sf0"), ("Crops", "crops"), ("Outdoor", "crops"), ("Methane", "scp"), ("Cellulosic", "cs"), ("Seaweed", "area"))


def _instances(cfg, cx):
    import random
    from harness.C02_optimum import _concrete_vals
    out = [cx["vals"][0]]
    rng = random.Random(2024)
    broken = cx["info"].split("breaks ")[-1]
    keep = [k for pre, k in FOCUS if broken.startswith(pre)]
    for _ in range(2):
        g = _concrete_vals(cfg, rng)
        if keep:
            f = {k: ([0.0] * len(v) if isinstance(v, list) else 0.0) for k, v in g.items() if k != "pins"}
            f["area"] = g["area"]
            for k in keep:
                f[k] = g[k]
            out.append(f)
        out.append(g)
    return out


def _replay_two_on(case, base, cfg1, vals, cx):
    import copy
    try:
        pf1, X1 = Q.run_real(cfg1, vals, cx["growth"])
    except AssertionError as e:
        return dict(reproduced=False, what="base instance infeasible for the real optimiser: %s" % e)
    v2 = copy.deepcopy(vals)
    cfg2 = cfg1
    if case["kind"] == "waste":
        cfg2 = LM.default_cfg(**dict(base, retail=case["to"]))
    elif case["kind"] == "charge":
        v2[case["which"]] = [x * case["lam"] for x in v2[case["which"]]]
    else:
        cfg2 = LM.default_cfg(**dict(base, pop=cfg1["pop"] * case["k"]))
        for kk, vv in v2.items():
            if isinstance(vv, list):
                v2[kk] = [x * case["k"] for x in vv]
            elif isinstance(vv, float):
                v2[kk] = vv * case["k"]
    try:
        pf2, X2 = Q.run_real(cfg2, v2, cx["growth"])
    except AssertionError as e:
        return dict(reproduced=True, what="%s: real optimiser fails on the perturbed instance (%s)" % (cx["info"], str(e)[:60]), inputs=dict(case=case, supplies=vals), key="two/%s/becomes infeasible" % case["kind"])
    if case["kind"] == "scale":
        bad = abs(pf2 - pf1) > 1e-4 * (1 + abs(pf1))
    else:
        bad = pf2 < pf1 * (1 - 1e-6) - 1e-9
    return dict(reproduced=bool(bad), what="%s: percent fed %r -> %r" % (cx["info"], pf1, pf2), inputs=dict(case=case, supplies=vals), observed=dict(before=pf1, after=pf2), key="two/%s/optimum changes the wrong way" % case["kind"])


def main(tier, seed, only=None):
    rep = vlib.Report(PID, tier, seed)
    thorough = tier == "thorough"
    full = dict.fromkeys(FLAGS, True)
    core = dict(SEAWEED=False, OUTDOOR_GROWING=True, STORED_FOOD=True, MEAT=True, METHANE_SCP=False, CELLULOSIC_SUGAR=False)
    noseaweed = dict(full, SEAWEED=False)
    sup = []
    for N in ([5, 14] if not thorough else [3, 5, 9, 14, 15]):
        months = list(range(N)) if (N <= 9 or thorough) else [0, 1, 7, 12, 13]
        for fl in ([full] if not thorough else [full, core]):
            for store in (True, False):
                for kind in ("stored_food", "crops", "slaughter", "scp", "cs", "milk", "fish", "gh", "area"):
                    sup.append(dict(N=N, opt="to_humans", store=store, flags=fl, kind=kind, months=months if kind != "stored_food" else [0]))
    two = []
    for N in ([5, 14] if not thorough else [5, 9, 14]):
        for store in (True, False):
            for (w1, w2) in ((24.98, 6.08), (6.08, 0.0)) + (((24.98, 0.0),) if thorough else ()):
                two.append(dict(N=N, opt="to_humans", store=store, flags=noseaweed, retail=w1, kind="waste", to=w2))
            for which in ("feed", "biofuel"):
                for lam in (0.0, 0.5, 0.9):
                    two.append(dict(N=N, opt="to_humans", store=store, flags=noseaweed, kind="charge", which=which, lam=lam))
            for k in (1e-3, 7.0, 1e3):
                two.append(dict(N=N, opt="to_humans", store=store, flags=noseaweed, kind="scale", k=k))
    groups = [
        dict(name="more_supply_never_feeds_fewer", fn="worker_supply", cases=sup, replay=replay_supply, functions=["Optimizer.add_variables_and_constraints_to_model (+ everything it calls), via the PuLP stand-in"],
             bounds="N in %s; every month perturbed (N=14 quick: months 0,1,7,12,13); storage on/off; all foods on; perturbation kinds: initial stock, crops, slaughter, SCP, cellulosic sugar, milk, fish, greenhouse, built seaweed area" % sorted({c["N"] for c in sup}),
             symbolic="every supply, every LP variable and the size of the increase delta >= 0", assumptions=["fixed feed and biofuel charge", "supplies >= 0", "epsilon-relaxed 1e-9"], stubs=["lpsym/standin.py"],
             outside=["seaweed growth rates (enter an equality without free disposal)", "monotonicity of the three-round pipeline as a whole"]),
        dict(name="less_waste_lower_charge_and_scale", fn="worker_two_models", cases=two, replay=replay_two_models, functions=["the same builder run for two coefficient settings"],
             bounds="N in {5,14}; retail waste pairs of the shipped levels; feed/biofuel charge x {0, 0.5, 0.9}; scale factors {1e-3, 7, 1e3}; storage on/off", symbolic="every supply and LP variable",
             assumptions=["seaweed off for these three laws: its biomass ledger is an equality with a density ceiling, so released seaweed has no free disposal and the initial biomass is a constant that does not scale"],
             stubs=["lpsym/standin.py"], outside=["waste / charge / scale laws with seaweed enabled"]),
    ]
    vlib.run_groups(rep, MOD, groups, seed, only)
    return rep.finish()


def replay_file(path):
    rec = json.load(open(path))
    print(json.dumps(rec, indent=1)[:3000])
    return 0
