"""C04 Headline, monthly breakdown and saved tables agree.

(a) SYMX on the real Extractor.extract_results -> Interpreter.interpret_results chain: the optimiser's variable values, milk, fish, greenhouse
    and crop production are symbolic; headline = min over months of the sum of contributions, every contribution = allocation converted, the crop
    split adds up, and the table handed to pandas is term-identical to the returned series.
(b) LPSYM on the real multi-stage driver run_optimizations_on_constraints (run against the PuLP stand-in): the constraint system of the last
    stage entails, for every month, consumed >= 0.99995 x first-stage optimum and still contains every first-stage constraint.
"""
import contextlib
import io
import json
import os
import re
import tempfile
import types
import numpy as np
import z3

import vlib
from symx.engine import Engine, SymReal, SymBool, zsum, close, sb, implies, conj
from symx.npproxy import patched, STUBS
from lpsym import model as LM
from lpsym import spec as SP
from lpsym import queries as Q
from lpsym import capture as CP

PID = "C04"
MOD = "harness.C04_reporting"
PREF = ["stored_food_to_humans", "stored_food_feed", "stored_food_biofuel", "seaweed_to_humans", "seaweed_feed", "seaweed_biofuel",
        "methane_scp_to_humans", "methane_scp_feed", "methane_scp_biofuel", "cellulosic_sugar_to_humans", "cellulosic_sugar_feed", "cellulosic_sugar_biofuel",
        "crops_food_to_humans", "crops_food_to_humans_fat", "crops_food_to_humans_protein", "crops_food_biofuel", "crops_food_biofuel_fat", "crops_food_biofuel_protein",
        "crops_food_feed", "crops_food_feed_fat", "crops_food_feed_protein", "meat_eaten"]
REL = 1e-9


def _mods():
    import src.optimizer.optimizer as om
    import src.optimizer.extract_results as ex
    import src.optimizer.interpret_results as ir
    import src.food_system.food as fd
    import src.food_system.unit_conversions as uc
    return om, ex, ir, fd, uc


_CAP = {}


def _real_constants(country="ARG"):
    """constants of a real run (round 1) and the process-wide nutrition settings it leaves behind"""
    if country in _CAP:
        return _CAP[country]
    import yaml
    sims = yaml.safe_load(open(vlib.REPO + "/scenarios/argentina.yaml"))["simulations"]
    rounds, res = CP.capture_country(country, list(sims.values())[0], 48)
    _CAP[country] = dict(rounds[0].consts)
    return _CAP[country]


def _chain(ex, ir, fd, om, consts, N, vals, milk, fish, gh, prod, captured_df, tmp):
    class LV(om.pulp.LpVariable):     # the extractor tests isinstance(..., pulp.pulp.LpVariable)
        def __init__(self, name, val):
            om.pulp.LpVariable.__init__(self, name)
            self.varValue = val
    c = dict(consts)
    c["NMONTHS"] = N
    variables = {p: [LV("%s_%d" % (p, m), vals[p][m]) for m in range(N)] for p in PREF}

    def F(k):
        z = np.array([np.float64(0.0)] * N, dtype=object)
        return fd.Food(np.array(list(k), dtype=object), z.copy(), z.copy(), "billion kcals each month", "thousand tons each month", "thousand tons each month")
    tc = dict(nonhuman_consumption=F([0.0] * N), fish=types.SimpleNamespace(to_humans=F(fish)), greenhouse_crops=F(gh), outdoor_crops=types.SimpleNamespace(production=F(prod)),
              milk_kcals=np.array(list(milk), dtype=object), milk_fat=np.array([0.0] * N, dtype=object), milk_protein=np.array([0.0] * N, dtype=object))
    model = types.SimpleNamespace(variables=lambda: [])
    e = ex.Extractor(c).extract_results(model, variables, tc)
    I = ir.Interpreter().interpret_results(e, "vp_c04")
    return c, I


def _expect(c, vals, milk, fish, gh, m):
    """contributions of month m in percent of the population fed, from first principles"""
    need = c["inputs"]["NUTRITION"]["KCALS_DAILY"] * 30 * c["POP"] / 1e9
    pct = lambda x: x / need * 100
    K = c["SEAWEED_KCALS"]
    return dict(stored_food=pct(vals["stored_food_to_humans"][m]), outdoor_crops=pct(vals["crops_food_to_humans"][m]), seaweed=pct(vals["seaweed_to_humans"][m] * K),
                cell_sugar=pct(vals["cellulosic_sugar_to_humans"][m]), scp=pct(vals["methane_scp_to_humans"][m]), greenhouse=pct(gh[m]), fish=pct(fish[m]),
                meat=pct(vals["meat_eaten"][m]), milk=pct(milk[m]))


def _filler(key, m):
    """concrete, pairwise different values for the months that are not symbolic"""
    return 3.0 + (sum(ord(ch) for ch in key) % 17) * 0.5 + 0.25 * m


def worker_chain(case, seed):
    om, ex, ir, fd, uc = _mods()
    consts = dict(_real_constants(case.get("country", "ARG")), **case.get("consts", {}))
    N = case["N"]
    E = Engine(seed=seed, max_paths=6000, query_timeout_ms=30000)
    E.div0_mode = "numpy"
    tmp = tempfile.mkdtemp(prefix="vp_c04_")
    os.mkdir(os.path.join(tmp, "results"))
    sym = case.get("sym", PREF)

    symm = case.get("sym_months")           # None: every month symbolic; else only these months (the others carry concrete, distinct values): long horizons stay tractable

    def h(E):
        vals = {}
        for p in PREF:
            if p in sym and not p.endswith("_fat") and not p.endswith("_protein"):
                vals[p] = [E.real("%s_%d" % (p, m)) if (symm is None or m in symm) else np.float64(_filler(p, m)) for m in range(N)]
                for v in vals[p]:
                    if isinstance(v, SymReal):
                        E.assume(v >= 0)
                        E.assume(v <= 1e6)
            else:
                vals[p] = [0.0] * N
        if symm is None:
            milk, fish, gh, prod = E.reals("milk", N), E.reals("fish", N), E.reals("greenhouse", N), E.reals("crop_production", N)
        else:
            milk, fish, gh, prod = ([np.float64(_filler(k, m)) for m in range(N)] for k in ("milk", "fish", "greenhouse", "crop_production"))
        for v in list(milk) + list(fish) + list(gh) + list(prod):
            if isinstance(v, SymReal):
                E.assume(v >= 0)
                E.assume(v <= 1e6)
        captured = {}

        class FakeDF:
            def __init__(self, d):
                captured.update(d)

            def to_csv(self, *a, **k):
                pass
        with patched(ex, ir, fd, uc, isinstance_=True, extra={(ir, "pd"): types.SimpleNamespace(DataFrame=FakeDF), (ir, "repo_root"): tmp}):
            c, I = _chain(ex, ir, fd, om, consts, N, vals, milk, fish, gh, prod, captured, tmp)
        pop = c["POP"]
        kd = c["inputs"]["NUTRITION"]["KCALS_DAILY"]
        tot = []
        for m in range(N):
            w = _expect(c, vals, milk, fish, gh, m)
            tot.append(zsum(list(w.values())))
            for key in ("cell_sugar", "scp", "greenhouse", "fish", "meat", "milk"):
                E.check("contribution = allocation converted to percent fed", close(getattr(I, key).kcals[m], w[key], REL, 1e-12))
            # series shown after rounding to 3 decimals (documented)
            for key in ("stored_food", "outdoor_crops"):
                d = getattr(I, key).kcals[m] - w[key]
                E.check("contribution (rounded to 3 decimals for display) = allocation converted", conj([d <= 0.0005 + 1e-9, -d <= 0.0005 + 1e-9]))
            d = I.seaweed_rounded.kcals[m] - w["seaweed"]
            E.check("contribution (rounded to 3 decimals for display) = allocation converted", conj([d <= 0.0005 + 1e-9, -d <= 0.0005 + 1e-9]))
            E.check("contribution = allocation converted to percent fed", close(I.seaweed.kcals[m], w["seaweed"], REL, 1e-12))
            # kcal/person/day table
            kk = lambda pc: pc / 100 * kd
            pairs = dict(fish=kk(w["fish"]), cell_sugar=kk(w["cell_sugar"]), scp=kk(w["scp"]), greenhouse=kk(w["greenhouse"]), seaweed=kk(w["seaweed"]), milk=kk(w["milk"]), meat=kk(w["meat"]),
                         stored_food=kk(w["stored_food"]))
            for key, want in pairs.items():
                got = getattr(I, key + "_kcals_equivalent").kcals[m]
                E.check("kcal-per-person-per-day series = allocation converted", close(got, want, REL, 1e-12))
                E.check("saved table column equals the returned series", captured[key][m] == got)
            split = I.immediate_outdoor_crops_kcals_equivalent.kcals[m] + I.new_stored_outdoor_crops_kcals_equivalent.kcals[m]
            E.check("crops 'eaten immediately' + 'eaten from new storage' = crops eaten", close(split, kk(w["outdoor_crops"]), REL, 1e-12))
            E.check("saved table column equals the returned series", conj([captured["immediate_outdoor_crops"][m] == I.immediate_outdoor_crops_kcals_equivalent.kcals[m],
                                                                           captured["new_stored_outdoor_crops"][m] == I.new_stored_outdoor_crops_kcals_equivalent.kcals[m]]))
        lo = tot[0]
        for t in tot[1:]:
            lo = t if (t < lo) else lo
        E.check("headline = minimum over months of the sum of contributions", close(I.percent_people_fed, lo, REL, 1e-12))
        E.check("saved table has exactly the ten food columns", sorted(captured.keys()) == sorted(["fish", "cell_sugar", "scp", "greenhouse", "seaweed", "milk", "meat", "immediate_outdoor_crops",
                                                                                                  "new_stored_outdoor_crops", "stored_food"]))
    try:
        E.explore(h)
    finally:
        import shutil
        shutil.rmtree(tmp, ignore_errors=True)
    return E.summary()


def _concrete_chain(case, m, write_csv=False):
    om, ex, ir, fd, uc = _mods()
    consts = dict(_real_constants(case.get("country", "ARG")), **case.get("consts", {}))
    N = case["N"]
    symm = case.get("sym_months")
    sym = case.get("sym", PREF)

    def g(k, i):
        if symm is not None and i not in symm and (k in ("milk", "fish", "greenhouse", "crop_production") or (k in sym and not k.endswith("_fat") and not k.endswith("_protein"))):
            return np.float64(_filler(k, i))
        return np.float64(m.get("%s_%d" % (k, i), 0.0))
    vals = {p: [g(p, i) for i in range(N)] for p in PREF}
    milk, fish, gh, prod = ([g(k, i) for i in range(N)] for k in ("milk", "fish", "greenhouse", "crop_production"))
    tmp = tempfile.mkdtemp(prefix="vp_c04r_")
    os.mkdir(os.path.join(tmp, "results"))
    old = ir.repo_root
    ir.repo_root = tmp
    try:
        with np.errstate(all="ignore"):
            if case.get("rerun"):
                # an earlier run under the same title has already left its table on disk (other numbers): the second run's table must replace it
                other = {p: [np.float64(v * 0.5 + 1.0) for v in vals[p]] for p in vals}
                _chain(ex, ir, fd, om, consts, N, other, [x + 1 for x in milk], fish, gh, prod, {}, tmp)
            c, I = _chain(ex, ir, fd, om, consts, N, vals, milk, fish, gh, prod, {}, tmp)
        import pandas as pd
        df = pd.read_csv(os.path.join(tmp, "results", "vp_c04_ykcals.csv"))
    finally:
        ir.repo_root = old
        import shutil
        shutil.rmtree(tmp, ignore_errors=True)
    return c, I, vals, milk, fish, gh, df


def replay_chain(case, cx):
    case = case if isinstance(case, dict) else json.loads(case)
    m = vlib.model_floats(cx["model"])
    try:
        c, I, vals, milk, fish, gh, df = _concrete_chain(case, m)
    except AssertionError as e:
        return dict(reproduced=False, what="code's own assertion fires on this input: %s" % str(e)[:100])
    N = case["N"]
    kd = c["inputs"]["NUTRITION"]["KCALS_DAILY"]
    bad = []
    tot = []
    for mm in range(N):
        w = _expect(c, vals, milk, fish, gh, mm)
        tot.append(sum(w.values()))
        for key in ("cell_sugar", "scp", "greenhouse", "fish", "meat", "milk", "seaweed"):
            if abs(getattr(I, key).kcals[mm] - w[key]) > 1e-6 * (1 + abs(w[key])):
                bad.append("%s contribution %r != allocation converted %r" % (key, getattr(I, key).kcals[mm], w[key]))
        for key in ("stored_food", "outdoor_crops"):
            if abs(getattr(I, key).kcals[mm] - w[key]) > 0.0005 + 1e-6 * (1 + abs(w[key])):
                bad.append("%s contribution %r != allocation converted %r" % (key, getattr(I, key).kcals[mm], w[key]))
        for key in ("fish", "cell_sugar", "scp", "greenhouse", "seaweed", "milk", "meat", "stored_food"):
            got = getattr(I, key + "_kcals_equivalent").kcals[mm]
            if abs(got - w[key] / 100 * kd) > 1e-6 * (1 + abs(got)):
                bad.append("%s kcal/person/day %r != %r" % (key, got, w[key] / 100 * kd))
            if abs(df[key][mm] - got) > 1e-9 * (1 + abs(got)):
                bad.append("saved table %s[%d]=%r differs from returned %r" % (key, mm, df[key][mm], got))
        split = I.immediate_outdoor_crops_kcals_equivalent.kcals[mm] + I.new_stored_outdoor_crops_kcals_equivalent.kcals[mm]
        if abs(split - w["outdoor_crops"] / 100 * kd) > 1e-6 * (1 + abs(split)):
            bad.append("crop split %r != crops eaten %r" % (split, w["outdoor_crops"] / 100 * kd))
        if abs(df["immediate_outdoor_crops"][mm] - I.immediate_outdoor_crops_kcals_equivalent.kcals[mm]) > 1e-9 * (1 + abs(split)):
            bad.append("saved table immediate_outdoor_crops differs")
    if abs(I.percent_people_fed - min(tot)) > 1e-6 * (1 + abs(min(tot))):
        bad.insert(0, "headline %r != min over months of summed contributions %r" % (I.percent_people_fed, min(tot)))
    return dict(reproduced=bool(bad), what="Extractor/Interpreter: " + "; ".join(bad[:3]), inputs=dict(case=case, values=m), observed=bad[:8], key="chain/" + (re.split(r" \d|=|!", bad[0])[0][:40] if bad else ""))


def validate_csv(rep):
    """concrete: the CSV written to disk by the real pandas call re-reads to the returned numbers (the symbolic run stubs pandas)."""
    rng = np.random.RandomState(3)
    ok = 0
    for it in range(4):
        case = dict(N=3) if it < 3 else dict(N=3, rerun=True)
        m = {}
        for p in PREF + ["milk", "fish", "greenhouse", "crop_production"]:
            if p.endswith("_fat") or p.endswith("_protein"):
                continue
            for i in range(3):
                m["%s_%d" % (p, i)] = "%d/1000" % rng.randint(0, 50000)
        r = replay_chain(case, dict(model=m))
        if r.get("reproduced") and case.get("rerun"):
            # the single-run validations passed: this is the real code leaving a stale table behind, not an encoding question
            rep.found("headline_breakdown_and_saved_table", json.dumps(case), "saved table column equals the returned series (second run under the same title)",
                      dict(r, key="chain/saved table not replaced by a second run"))
            return
        if r.get("reproduced"):
            rep.fail_inconclusive("concrete chain validation failed: %s" % r["what"])
            return
        ok += 1
    rep.note_validation(ok)


# ------------------------------------------------------------------------------------------ (b) later stages keep the optimum
def worker_stages(case, seed):
    cfg = LM.default_cfg(stages=True, **case)
    M = LM.build(cfg)
    N = cfg["N"]
    snaps = M.snapshots
    final = snaps[-1]["cons"]
    v = M.objvals[0][0]            # the symbol standing for objective.value() after the first solve
    allv = [x.z for x in M.all_vars]
    hyps = list(final.values()) + [x.z >= LM.q(x.lowBound) for x in M.all_vars if x.lowBound is not None] + M.sup + [v >= 0] + [s >= 0 for s in M.values.values()]
    Mt = z3.Sum(allv + LM.all_supply_symbols(M) + [v]) + 1
    ent = Q.Entail(hyps, seed=seed)
    obligations, cex = {}, []
    canary = 0 if ent.satisfiable() == "sat" else 1

    def ob(name, res):
        o = obligations.setdefault(name, dict(unsat=0, sat=0, unknown=0))
        o[res] += 1
    ob("the driver solves three times (optimum, best-to-humans, smoothing)", "unsat" if len(snaps) == 3 else "sat")
    for i, s in enumerate(snaps[1:], 2):
        kept = all(n in s["cons"] and z3.eq(s["cons"][n], c) for n, c in M.cons.items())
        ob("every first-stage constraint is still in the model of a later stage, unchanged", "unsat" if kept else "sat")
        if not kept:
            missing = [n for n, c in M.cons.items() if n not in s["cons"] or not z3.eq(s["cons"][n], c)]
            cex.append(dict(obligation="every first-stage constraint is still in the model of a later stage, unchanged", model={}, info="stage %d drops/changes %s" % (i, missing[:4]), vals=None))
    floor = LM.q(1 - 1e-4)
    if cfg["opt"] == "to_humans":
        for m in range(N):
            for nm, term in (("last stage: reported intake of every month >= optimum x (1 - 1e-4)", LM.zz(M.V["consumed_kcals"][m])),
                             ("last stage: sum of the month's contributions >= optimum x (1 - 1e-4)", SP.eaten_percent(M, m))):
                r, mod = ent.check(Q.relax(term >= floor * v, Mt))
                ob(nm, r)
                if r == "sat" and not any(c["obligation"] == nm for c in cex):
                    cex.append(dict(obligation=nm, model={}, info="month %d" % m, vals=[Q.model_values(M, mod)], growth=M.growth))
    else:
        tot = LM.q(2 / 3) * z3.Sum([SP.feed_sum(M, m) for m in range(N)]) + z3.Sum([SP.biofuel_sum(M, m) for m in range(N)]) / 3
        r, mod = ent.check(Q.relax(tot >= floor * v, Mt))
        nm = "last stage: weighted feed + biofuel total >= optimum x (1 - 1e-4)"
        ob(nm, r)
        if r == "sat":
            cex.append(dict(obligation=nm, model={}, info="", vals=[Q.model_values(M, mod)], growth=M.growth))
    st = dict(paths=1, completed=1, pruned_by_code_assertions=0, pruned_other=0, queries=ent.queries, solver_s=round(ent.solver_s, 3), branches=0, unsat=ent.counts["unsat"], sat=ent.counts["sat"],
              unknown=ent.counts["unknown"], forks=0, stage_constraints=[len(s["cons"]) for s in snaps])
    return dict(stats=st, obligations=obligations, cex=cex, errors=[], n_errors=0, canary_bad=canary)


def replay_stages(case, cx):
    case = case if isinstance(case, dict) else json.loads(case)
    cfg = LM.default_cfg(**case)
    if cx.get("vals") is None:
        return dict(reproduced=True, what="multi-stage driver: %s" % cx["info"], key="stages/first-stage constraint dropped")
    if cfg["opt"] != "to_humans":
        return dict(reproduced=False, what="feed-maximising round: counterexample not replayed")
    # the solver's model says the later-stage constraint systems ALLOW a result below the optimum; whether CBC's tie-breaking solves use that room depends on
    # the instance (their objectives must gain from it).  The solver's own instance is replayed first, then a few generic instances of the same configuration.
    import random
    from harness.C02_optimum import _concrete_vals
    rng = random.Random(12345)
    tried = []
    for vals in [cx["vals"][0]] + [_concrete_vals(cfg, rng) for _ in range(4)]:
        try:
            pf, X = Q.run_real(cfg, vals, cx["growth"])
        except AssertionError as e:
            tried.append("real optimiser failed: %s" % str(e)[:80])
            continue
        final = min(float(x) for x in X["consumed_kcals"])
        tried.append((pf, final))
        if final < pf * (1 - 1e-4) - 1e-9:
            return dict(reproduced=True, what="after the tie-breaking solves the worst month's intake is %r while the first-stage optimum was %r" % (final, pf), inputs=dict(case=case, supplies=vals),
                        observed=dict(first_stage=pf, final_min_month=final), key="stages/headline degraded by later solves")
        # the headline is rebuilt from the per-food contributions of each month: their sum, from first principles
        need = cfg["pop"] * cfg["kcals_daily"] * 30 / 1e9
        g = lambda k, m: float(X[k][m] or 0.0) if k in X and X[k][m] is not None and not isinstance(X[k][m], (str,)) else 0.0
        sums = []
        for m in range(cfg["N"]):
            eaten = (g("stored_food_to_humans", m) + g("crops_food_to_humans", m) + g("seaweed_to_humans", m) * cfg["seaweed_kcals"] + vals["milk"][m] + g("meat_eaten", m)
                     + g("cellulosic_sugar_to_humans", m) + g("methane_scp_to_humans", m) + vals["gh"][m] + vals["fish"][m])
            sums.append(eaten / need * 100)
        if min(sums) < pf * (1 - 1e-4) - 1e-9:
            return dict(reproduced=True, what="the contributions of the worst month add up to %r percent fed while the optimiser's optimum was %r" % (min(sums), pf), inputs=dict(case=case, supplies=vals),
                        observed=dict(first_stage=pf, min_month_sum_of_contributions=min(sums)), key="stages/sum of contributions below the optimum")
    return dict(reproduced=False, what="the later stages' constraints allow a result below the optimum, but CBC did not use the room on the solver's instance nor on 4 generic ones: %s" % tried)


def main(tier, seed, only=None):
    rep = vlib.Report(PID, tier, seed)
    thorough = tier == "thorough"
    try:
        validate_csv(rep)
    except Exception as e:   # noqa  the real code raised on a concrete validation sample: the symbolic groups still run and decide; without a violation the run is inconclusive
        rep.fail_inconclusive("concrete validation of the encoding could not run: %s: %s" % (type(e).__name__, str(e)[:200]))
    human = ["stored_food_to_humans", "seaweed_to_humans", "methane_scp_to_humans", "cellulosic_sugar_to_humans", "crops_food_to_humans", "meat_eaten"]
    chain = [dict(N=2, sym=human + ["crops_food_feed", "crops_food_biofuel"]), dict(N=1, sym=PREF)]
    # a horizon that crosses the first year, in both stock regimes: months 11-13 symbolic, the others concrete (the report has its own per-month clean-up steps)
    chain += [dict(N=14, sym=["stored_food_to_humans", "meat_eaten"], sym_months=[11, 12, 13], consts=dict(STORE_FOOD_BETWEEN_YEARS=st)) for st in (True, False)]
    if thorough:
        chain += [dict(N=2, sym=PREF)]      # three symbolic months (or three symbolic series over three months) exceed the 6000-path budget
    full = dict.fromkeys(LM.FOODS, True)
    core = dict(SEAWEED=False, OUTDOOR_GROWING=True, STORED_FOOD=True, MEAT=True, METHANE_SCP=False, CELLULOSIC_SUGAR=False)
    stages = [dict(N=n, opt=o, store=s, flags=f) for n in ([4, 14] if not thorough else [3, 4, 9, 14, 15]) for o in ("to_humans", "to_animals") for s in (True, False) for f in (full, core)]
    # the optimiser branches on the population (countries under 10 million get looser pins): both sides of that branch
    stages += [dict(N=4, opt=o, store=s, flags=full, pop=p) for o in ("to_humans", "to_animals") for s in (True, False) for p in (5e5, 9.9e6, 8e9)]
    groups = [
        dict(name="headline_breakdown_and_saved_table", fn="worker_chain", cases=chain, replay=replay_chain,
             functions=["Extractor.extract_results", "extract_to_humans_feed_and_biofuel", "extract_generic_results", "to_monthly_list", "extract_outdoor_crops_results", "create_food_object_from_fat_protein_variables",
                        "to_monthly_list_outdoor_crops_kcals", "validate_sources_add_up", "validate_outdoor_growing_production", "extract_meat_milk_results", "get_greenhouse_results",
                        "Interpreter.interpret_results", "assign_percent_fed_from_extractor", "assign_kcals_equivalent_from_extractor", "calculate_feed_and_biofuels", "assign_interpreted_properties",
                        "get_sum_by_adding_to_humans", "get_percent_people_fed", "correct_and_validate_rounding_errors", "Food.in_units*", "Food.get_min_nutrient", "Food.get_rounded_to_decimal"],
             bounds="NMONTHS in {1,2} with every month symbolic, and 14 months with months 11-13 symbolic in both stock regimes; constants (population, nutrition, seaweed kcal, fractions) of a real Argentina run", symbolic="the optimiser's variable values (per food, month), milk, fish, greenhouse, crop production",
             assumptions=["values >= 0", "paths on which the code's own validators assert are pruned and counted", "series the code rounds for display are compared within the rounding step (0.0005 percent)"],
             stubs=STUBS + ["interpret_results.pd.DataFrame replaced by a recorder (a concrete run writes and re-reads the real CSV)", "interpret_results.repo_root -> scratch directory", "stub model.variables()"],
             outside=["fat/protein series", "float formatting of the CSV beyond the concrete re-read", "more than 3 months (the chain is elementwise per month except the minimum)"], min_completed=1),
        dict(name="later_stages_keep_the_optimum", fn="worker_stages", cases=stages, replay=replay_stages,
             functions=["Optimizer.run_optimizations_on_constraints", "constrain_next_optimization_to_have_same_minimum_starvation", "constrain_next_optimization_to_have_same_feed_biofuel",
                        "optimize_best_food_consumption_to_go_to_humans", "constrain_next_optimization_to_have_same_total_resilient_foods_in_feed", "reduce_fluctuations_with_a_final_optimization"],
             bounds="N in {4,14} (thorough 3..15), both round types, storage on/off, two flag sets; population 5e7, and 5e5 / 9.9e6 / 8e9 at N=4", symbolic="all supplies, all LP variables, the first-stage optimum and every value read back from the solver between stages",
             assumptions=["solver status 1 at every stage", "values read back between stages are arbitrary non-negative numbers"], stubs=["lpsym/standin.py incl. LpConstraint-as-expression semantics"], outside=["CBC's tolerance (replay only)"]),
    ]
    vlib.run_groups(rep, MOD, groups, seed, only)
    return rep.finish()


def replay_file(path):
    rec = json.load(open(path))
    print(json.dumps(rec, indent=1)[:3000])
    return 0
