"""C11 A food quantity's unit labels always describe its numbers.

(a) CrossHair (crosshair-tool, z3 strings): for every operation of the statement a PEP-316 wrapper is generated per label slot (kcals / fat / protein label
    symbolic, the other two concrete); CrossHair searches all paths of the real Food code for a label that breaks the rule of xhair/c11_labels.py.
(b) SYMX (z3 reals): the comparison predicates give the same answer for a single value and for the equivalent one-month series under all four
    include-fat / include-protein settings, for all numbers.
"""
import json
import os
import shutil
import tempfile
import time
import numpy as np
import z3

import vlib
from symx.engine import Engine, SymReal, SymBool, sb
from symx.npproxy import patched, STUBS
from xhair import runner as XR

PID = "C11"
MOD = "harness.C11_labels"
HERE = os.path.dirname(os.path.dirname(os.path.abspath(__file__)))
CONCRETE = ["billion kcals", "thousand tons", "million tons"]      # labels of the model's vocabulary for the two slots that are not symbolic
SLOTS = ["kcals", "fat", "protein"]


def generate(path, maxlen, slots):
    import importlib.util
    spec = importlib.util.spec_from_file_location("c11_props", os.path.join(HERE, "xhair", "c11_labels.py"))
    P = importlib.util.module_from_spec(spec)
    spec.loader.exec_module(P)
    out = ["import sys", "sys.path.insert(0, %r)" % HERE, "from xhair.c11_labels import *", ""]
    names = []
    for prop in P.PROPS:
        for si in slots:
            args = list(CONCRETE)
            args[si] = None
            call = ", ".join("s" if a is None else repr(a) for a in args)
            pre = ["len(s) <= %d" % maxlen]
            if prop in P.NEEDS_NON_RATIO and si == 0:
                pre.append('"ratio" not in s')
            fn = "%s__%s_label" % (prop, SLOTS[si])
            out += ["def %s(s: str) -> bool:" % fn, '    """'] + ["    pre: " + p for p in pre] + ["    post: _", '    """', "    return %s(%s)" % (prop, call), ""]
            names.append(fn)
    for prop in P.TWO:
        for si in slots:
            a1, a2 = list(CONCRETE), list(CONCRETE)
            a1[si], a2[si] = None, None
            call = ", ".join(["s" if a is None else repr(a) for a in a1] + ["t" if a is None else repr(a) for a in a2])
            fn = "%s__%s_label" % (prop, SLOTS[si])
            out += ["def %s(s: str, t: str) -> bool:" % fn, '    """', "    pre: len(s) <= %d and len(t) <= %d and s != t" % (maxlen, maxlen), "    post: _", '    """', "    return %s(%s)" % (prop, call), ""]
            names.append(fn)
    open(path, "w").write("\n".join(out))
    return names


# ---------------------------------------------------------------------------------------- (b) predicates: scalar vs one-month series
PREDS2 = ["all_greater_than", "all_less_than", "any_greater_than", "any_less_than", "all_greater_than_or_equal_to", "all_less_than_or_equal_to", "any_greater_than_or_equal_to",
          "any_less_than_or_equal_to", "__eq__", "__ne__"]
PREDS1 = ["is_never_negative", "all_equals_zero", "any_equals_zero", "all_greater_than_zero", "any_greater_than_zero", "all_greater_than_or_equal_to_zero"]


def _mods():
    import src.food_system.food as fd
    import src.food_system.unit_conversions as uc
    return fd, uc


def _tobool(E, r):
    if isinstance(r, SymBool):
        return bool(r)
    return bool(r)


def worker_predicates(case, seed):
    fd, uc = _mods()
    E = Engine(seed=seed, max_paths=4000)
    E.prune_on = ()
    inc_fat, inc_pro = case["flags"]
    pred = case["pred"]
    saved = fd.Food.conversions.__dict__.copy()

    def h(E):
        fd.Food.conversions.set_nutrition_requirements(2100, 47, 51, inc_fat, inc_pro, 1e6)
        a = [E.real("a_%s" % n) for n in ("kcals", "fat", "protein")]
        b = [E.real("b_%s" % n) for n in ("kcals", "fat", "protein")]
        for v in a + b:
            E.assume(v >= -1e6)
            E.assume(v <= 1e6)
            if pred == "all_equals_zero":
                # this predicate rounds to 9 decimals: python's round() and numpy's differ exactly at ties (x = +-0.5e-9), which is outside the claim
                E.assume(SymBool(z3.Or(v.z == 0, v.z >= z3.RealVal("1/1000000"), v.z <= z3.RealVal("-1/1000000"))))
        U = ("billion kcals", "thousand tons", "thousand tons")
        with patched(fd, uc, isinstance_=True):
            xs, ys = fd.Food(a[0], a[1], a[2], *U), fd.Food(b[0], b[1], b[2], *U)
            xm = fd.Food(np.array([a[0]], dtype=object), np.array([a[1]], dtype=object), np.array([a[2]], dtype=object), *U)
            ym = fd.Food(np.array([b[0]], dtype=object), np.array([b[1]], dtype=object), np.array([b[2]], dtype=object), *U)
            if pred in PREDS2:
                rs = _tobool(E, getattr(xs, pred)(ys))
                rm = _tobool(E, getattr(xm, pred)(ym))
            else:
                rs = _tobool(E, getattr(xs, pred)())
                rm = _tobool(E, getattr(xm, pred)())
        E.check("%s: same answer for a single value and the equivalent one-month series" % pred, rs == rm, info="scalar says %s, one-month series says %s" % (rs, rm))
    try:
        E.explore(h)
    finally:
        fd.Food.conversions.__dict__.clear()
        fd.Food.conversions.__dict__.update(saved)
    return E.summary()


def replay_predicates(case, cx):
    fd, uc = _mods()
    case = case if isinstance(case, dict) else json.loads(case)
    m = vlib.model_floats(cx["model"])
    saved = fd.Food.conversions.__dict__.copy()
    try:
        fd.Food.conversions.set_nutrition_requirements(2100, 47, 51, case["flags"][0], case["flags"][1], 1e6)
        a = [m["a_%s" % n] for n in ("kcals", "fat", "protein")]
        b = [m["b_%s" % n] for n in ("kcals", "fat", "protein")]
        U = ("billion kcals", "thousand tons", "thousand tons")
        xs, ys = fd.Food(a[0], a[1], a[2], *U), fd.Food(b[0], b[1], b[2], *U)
        xm, ym = fd.Food([a[0]], [a[1]], [a[2]], *U), fd.Food([b[0]], [b[1]], [b[2]], *U)
        pred = case["pred"]
        if pred in PREDS2:
            rs, rm = bool(getattr(xs, pred)(ys)), bool(getattr(xm, pred)(ym))
        else:
            rs, rm = bool(getattr(xs, pred)()), bool(getattr(xm, pred)())
    finally:
        fd.Food.conversions.__dict__.clear()
        fd.Food.conversions.__dict__.update(saved)
    return dict(reproduced=rs != rm, what="Food.%s with include_fat=%s include_protein=%s: single value -> %s, one-month series -> %s (a=%s, b=%s)" % (pred, case["flags"][0], case["flags"][1], rs, rm, a, b),
                inputs=dict(case=case, a=a, b=b), observed=dict(scalar=rs, series=rm), key="predicate/%s" % pred)


def main(tier, seed, only=None):
    rep = vlib.Report(PID, tier, seed)
    thorough = tier == "thorough"
    t0 = time.time()
    # ---- (a) CrossHair on labels
    if not only or "labels" in only:
        tmp = tempfile.mkdtemp(prefix="vp_c11_")
        try:
            path = os.path.join(tmp, "c11_generated.py")
            maxlen = 6 if not thorough else 8
            names = generate(path, maxlen, [0, 1, 2])
            res = XR.run(path, timeout=60 if not thorough else 240, repo=vlib.REPO)
            results = []
            for r in res:
                ob = {r["func"].split("__")[0] + ": label rule holds for every label": dict(unsat=0, sat=0, unknown=0)}
                o = list(ob.values())[0]
                cex = []
                errors = []
                if r["status"] == "confirmed":
                    o["unsat"] += 1
                elif r["status"] == "counterexample":
                    o["sat"] += 1
                    cex.append(dict(obligation=list(ob.keys())[0], model={}, info=r["call"], func=r["func"], path=path))
                else:
                    o["unknown"] += 1
                    errors.append("crosshair: %s (%s)" % (r["message"][:200], r["func"]))
                results.append(dict(case=r["func"], wall_s=r["wall_s"], stats=dict(paths=1, completed=1, queries=1, solver_s=r["wall_s"], branches=0, unsat=o["unsat"], sat=o["sat"], unknown=o["unknown"],
                                                                                   pruned_by_code_assertions=0, pruned_other=0), obligations=ob, cex=cex, errors=errors, canary_bad=0))

            def replay_label(case, cx):
                ok, detail = XR.replay_call(cx["path"], cx["info"], repo=vlib.REPO)
                prop = cx["func"].split("__")[0]
                return dict(reproduced=ok, what="label rule '%s' broken for %s -> %s" % (prop, cx["info"], detail), inputs=dict(call=cx["info"]), key="label/%s" % prop)
            rep.add_group("labels_of_every_operation", results,
                          functions=["Food.__init__", "__add__", "__sub__", "__neg__", "__mul__", "__rmul__", "__truediv__", "__getitem__", "get_month", "get_first_month", "get_nutrients_sum",
                                     "get_running_total_nutrients_sum", "get_min_all_months", "get_max_all_months", "min_elementwise", "get_rounded_to_decimal", "negative_values_to_zero", "shift", "get_abs_values",
                                     "__eq__", "__ne__", "all_*/any_* comparison methods (refusal)", "UnitConversions.set_units", "get_units", "set_units_from_list_to_total", "set_units_from_list_to_element",
                                     "set_units_from_element_to_list", "is_a_ratio"],
                          bounds="16 operation rules x 3 label slots; the symbolic label is any string of length <= %d (two strings for the refusal rules); numbers concrete; scalar and 2-3-month series" % maxlen,
                          symbolic="one unit label (str) per wrapper", assumptions=["labels of length <= %d" % maxlen, "the two non-symbolic slots carry labels of the model's vocabulary"],
                          stubs=["none (CrossHair runs the real module); numbers stay concrete because numpy would force CrossHair to realise them"],
                          outside=["two or three labels symbolic at once (CrossHair: 'Not confirmed' after 90 s already at length 3)", "longer labels"], replay=replay_label)
        finally:
            shutil.rmtree(tmp, ignore_errors=True)
    # ---- (b) SYMX on predicates
    flags = [(True, True), (True, False), (False, True), (False, False)]
    cases = [dict(pred=p, flags=list(f)) for p in PREDS2 + PREDS1 for f in flags]
    groups = [dict(name="predicates_scalar_vs_series", fn="worker_predicates", cases=cases, replay=replay_predicates,
                   functions=["Food." + p for p in PREDS2 + PREDS1], bounds="16 predicates x 4 settings of include_fat / include_protein; one-month series",
                   symbolic="the six numbers of the two quantities (any reals in [-1e6, 1e6])", assumptions=[], stubs=STUBS[:4] + ["food.isinstance accepts SymReal as float"], outside=["series longer than one month", "all_equals_zero at exact rounding ties (|x| = 0.5e-9): python round and numpy round break ties differently"])]
    vlib.run_groups(rep, MOD, groups, seed, only)
    return rep.finish()


def replay_file(path):
    rec = json.load(open(path))
    print(json.dumps(rec, indent=1)[:3000])
    return 0
