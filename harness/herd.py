"""Shared helpers for the herd-simulation harnesses (C05, C06, C07): build real AnimalSpecies objects with the
coefficients of the shipped tables by running the real animal_populations.main() for one month, and lift the
month body of main() from its AST."""
import ast
import builtins
import inspect
import io
import contextlib
import textwrap

import numpy as np


def _ap():
    import src.food_system.animal_populations as ap
    return ap


KCALS_PER_HEAD = dict(KCALS_PER_CHICKEN=2.4e-6, KCALS_PER_PIG=2.6e-4, KCALS_PER_SMALL_ANIMAL=3.0e-6,
                      KCALS_PER_MEDIUM_ANIMAL=6.0e-5, KCALS_PER_LARGE_ANIMAL=6.5e-4)


def build(country, strategy, months=1, feed=0.0, grass=0.0):
    """returns (all_animals, ruminants, country_object) after `months` real months (remove_first_month=0)."""
    ap = _ap()
    from src.food_system.food import Food
    captured = []
    orig = ap.CountryData

    class CD(orig):
        def __init__(self, name):
            orig.__init__(self, name)
            captured.append(self)
    ap.CountryData = CD
    # the grass-eligible list is built by main() itself: take the list main() hands to feed_animals (the wiring under test), not one rebuilt here
    handed = []
    real_feed = ap.AnimalPopulation.feed_animals

    def spy(animal_list, ruminants, available_feed, available_grass):
        if not handed:
            handed.append(list(ruminants))
        return real_feed(animal_list, ruminants, available_feed, available_grass)
    ap.AnimalPopulation.feed_animals = spy
    try:
        with contextlib.redirect_stdout(io.StringIO()):
            animals, fu, gu = ap.main(country, Food(np.zeros(months) + feed), Food(np.zeros(months) + grass), strategy,
                                      constants_inputs=None, remove_first_month=0, kcals_per_head_meat_dict=dict(KCALS_PER_HEAD))
    finally:
        ap.CountryData = orig
        ap.AnimalPopulation.feed_animals = real_feed
    ruminants = handed[0] if handed else [a for a in animals if a.digestion_type == "ruminant"]
    return animals, ruminants, captured[0]


def species_cover(max_countries=6):
    """greedy choice of countries of the head-count table so that every species type occurs at least once."""
    ap = _ap()
    df = ap.AnimalDataReader.read_animal_population_data("FAOSTAT_head_and_slaughter.csv")
    heads = [c for c in df.columns if c.endswith("_head")]
    need = set(heads)
    chosen = []
    prefer = ["USA", "ARG", "IND", "CHN", "BRA", "AUS", "FRA", "EGY", "MNG", "PER"]
    rows = [r for r in prefer if r in df.index] + [r for r in df.index if r not in prefer and r != "WOR"]
    while need and len(chosen) < max_countries:
        best = max(rows, key=lambda r: len([h for h in need if df.loc[r, h] > 0]))
        got = {h for h in need if df.loc[best, h] > 0}
        if not got:
            break
        chosen.append(best)
        need -= got
    return chosen, sorted(need)


_LIFT = {}


def lifted_month_step():
    """compile the `for month in range(...)` body of main() as a function of its free variables (regenerated from source)."""
    ap = _ap()
    src = inspect.getsource(ap.main)
    key = hash(src)
    if key in _LIFT:
        return _LIFT[key]
    tree = ast.parse(textwrap.dedent(src))
    fn = tree.body[0]
    loops = [n for n in fn.body if isinstance(n, ast.For) and isinstance(n.target, ast.Name) and n.target.id == "month"]
    if len(loops) != 1:
        raise RuntimeError("cannot lift main(): expected exactly one `for month` loop, found %d" % len(loops))
    body = loops[0].body

    class V(ast.NodeVisitor):
        def __init__(s):
            s.load = set()
            s.store = set()

        def visit_Name(s, n):
            (s.load if isinstance(n.ctx, ast.Load) else s.store).add(n.id)
    v = V()
    for b in body:
        v.visit(b)
    free = sorted(x for x in v.load - v.store if not hasattr(builtins, x) and x not in vars(ap))
    # names both stored and loaded in the body but defined before the loop (e.g. feed_used) are loads of outer names too
    args = ["month"] + [x for x in free if x != "month"]
    ret = ast.Return(value=ast.Call(func=ast.Name(id="dict", ctx=ast.Load()), args=[],
                                    keywords=[ast.keyword(arg=k, value=ast.Name(id=k, ctx=ast.Load())) for k in ("hours_by_size_dict", "transfer_populations", "births")]))
    new = ast.FunctionDef(name="month_step", args=ast.arguments(posonlyargs=[], args=[ast.arg(a) for a in args], kwonlyargs=[], kw_defaults=[], defaults=[]),
                          body=body + [ret], decorator_list=[], type_params=[])
    mod = ast.Module(body=[new], type_ignores=[])
    ast.fix_missing_locations(mod)
    ns = dict(vars(ap))
    exec(compile(mod, "<lifted main() month body>", "exec"), ns)
    _LIFT[key] = (ns["month_step"], args, ns)
    return _LIFT[key]
