"""C13 'sets exactly the constants its documentation describes', for the constants that come from the country's data row.

The real dispatcher (ScenarioRunner.set_depending_on_option and every Scenarios setter it reaches) runs on a country row whose numeric cells are ALL symbolic
(one z3 real per column), for one option value at a time (the other families at a shipped preset).  z3 decides that each documented constant equals the cell the
documentation names -- for every value of every cell, so a setter that reads the neighbouring column, the wrong year, the wrong price level or the wrong month is
refuted, whatever the shipped numbers happen to be.  The oracle below is written from scenarios/README.md and the column names of the data table."""
import contextlib
import io
import json

import numpy as np

import vlib
from symx.engine import Engine, SymReal, sb, conj, close
from symx.npproxy import patched

MONTHS = ["JAN", "FEB", "MAR", "APR", "MAY", "JUN", "JUL", "AUG", "SEP", "OCT", "NOV", "DEC"]
RESILIENT = dict(no_resilient_foods=[], seaweed=["ADD_SEAWEED"], methane_scp=["ADD_METHANE_SCP"], cellulosic_sugar=["ADD_CELLULOSIC_SUGAR"], industrial_foods=["ADD_METHANE_SCP", "ADD_CELLULOSIC_SUGAR"],
                 relocated_crops=["OG_USE_BETTER_ROTATION"], greenhouse=["ADD_GREENHOUSES"])
SHUTOFF = dict(immediate=(0, 0, 100), short_delayed_shutoff=(2, 1, 100), long_delayed_shutoff=(3, 2, 100), continued=("NM", "NM", 100), continued_after_10_percent_fed=("NM", "NM", 10))


class Row(dict):
    def copy(self):
        return Row(self)


def _mods():
    import src.scenarios.scenarios as sc
    import src.scenarios.run_scenario as rs
    import xhair.c13_options as H
    return sc, rs, H


def _expect(E, fam, val, row, c, tc, NM):
    """list of (label, condition) for option family `fam` set to `val`"""
    out = []
    pct = lambda col: row[col] * 100
    eq = lambda a, b: close(a, b, 1e-12, 1e-12) if isinstance(a, SymReal) or isinstance(b, SymReal) else sb(bool(a == b))
    if fam == "base":
        out.append(("population = the row's population", eq(c["POP"], row["population"])))
        for k, col in (("BASELINE_CROP_KCALS", "crop_kcals"), ("BASELINE_CROP_FAT", "crop_fat"), ("BASELINE_CROP_PROTEIN", "crop_protein"), ("FEED_KCALS", "feed_kcals"), ("FEED_FAT", "feed_fat"),
                       ("FEED_PROTEIN", "feed_protein"), ("BIOFUEL_KCALS", "biofuel_kcals"), ("BIOFUEL_FAT", "biofuel_fat"), ("BIOFUEL_PROTEIN", "biofuel_protein"),
                       ("FISH_DRY_CALORIC_ANNUAL", "aq_kcals"), ("FISH_FAT_TONS_ANNUAL", "aq_fat"), ("FISH_PROTEIN_TONS_ANNUAL", "aq_protein")):
            out.append(("annual baseline %s = the row's %s" % (k, col), eq(c[k], row[col])))
        for i, mn in enumerate(MONTHS):
            out.append(("end-of-month stock of each month = the row's stock of that month", eq(c["END_OF_MONTH_STOCKS"][mn], row["stocks_kcals_" + mn.lower()])))
    if fam == "waste":
        price = dict(baseline_in_country="retail_waste_baseline", doubled_prices_in_country="retail_waste_price_double", tripled_prices_in_country="retail_waste_price_triple")
        if val == "zero":
            out.append(("waste zero: retail waste 0", eq(c["WASTE_RETAIL"], 0)))
            for k in ("SUGAR", "CROPS", "MEAT", "MILK", "SEAFOOD", "SEAWEED"):
                out.append(("waste zero: distribution waste 0", eq(c["WASTE_DISTRIBUTION"][k], 0)))
        else:
            out.append(("retail waste = the row's retail waste at the chosen price level, in percent", eq(c["WASTE_RETAIL"], pct(price[val]))))
            for k, col in (("SUGAR", "distribution_loss_sugar"), ("CROPS", "distribution_loss_crops"), ("MEAT", "distribution_loss_meat"), ("MILK", "distribution_loss_dairy"), ("SEAFOOD", "distribution_loss_seafood")):
                out.append(("distribution waste of each food = the row's loss for that food, in percent", eq(c["WASTE_DISTRIBUTION"][k], pct(col))))
    if fam == "shutoff":
        f, b, t = SHUTOFF[val]
        out.append(("feed / biofuel shut-off months and the minimum share as documented", conj([eq(c["DELAY"]["FEED_SHUTOFF_MONTHS"], NM if f == "NM" else f), eq(c["DELAY"]["BIOFUEL_SHUTOFF_MONTHS"], NM if b == "NM" else b),
                                                                                              eq(c["MINIMUM_PERCENT_FED_BEFORE_NONHUMAN_CONSUMPTION_ALLOWED"], t)])))
    if fam == "scenario":
        flags = ["ADD_SEAWEED", "ADD_METHANE_SCP", "ADD_CELLULOSIC_SUGAR", "ADD_GREENHOUSES", "OG_USE_BETTER_ROTATION"]
        if val in RESILIENT:
            out.append(("resilient-food switches: exactly the documented ones are on", sb(all(bool(c[k]) == (k in RESILIENT[val]) for k in flags))))
            out.append(("cropland is not expanded", eq(c["RATIO_INCREASED_CROP_AREA"], 1)))
        else:
            out.append(("all resilient foods: seaweed, cellulosic sugar and methane SCP are on", sb(all(bool(c[k]) for k in flags[:3]))))
            out.append(("cropland expanded exactly for '..._and_more_area'", sb(bool(c["RATIO_INCREASED_CROP_AREA"] > 1) == val.endswith("more_area"))))
    if fam == "crop_disruption":
        for y in range(1, 11):
            want = dict(zero=1, country_nuclear_winter=1 + row["crop_reduction_year%d" % y], all_crops_die_instantly=0)[val]
            out.append(("crop ratio of each year = 1 + the row's reduction of that year (1 without disruption, 0 when all crops die)", eq(c["RATIO_CROPS_YEAR%d" % y], want)))
    if fam == "grasses":
        for y in range(1, 11):
            want = dict(baseline=1, country_nuclear_winter=1 + row["grasses_reduction_year%d" % y], all_crops_die_instantly=0)[val]
            out.append(("grass ratio of each year = 1 + the row's reduction of that year", eq(c["RATIO_GRASSES_YEAR%d" % y], want)))
    if fam == "seasonality":
        for m in range(12):
            want = row["seasonality_m%d" % (m + 1)] if val == "country" else 1.0 / 12
            out.append(("seasonality of each calendar month = the row's share of that month (1/12 without seasonality)", eq(c["SEASONALITY"][m], want)))
    if fam == "stored_food":
        out.append(("stored food switched on exactly for 'baseline'", sb(bool(c["ADD_STORED_FOOD"]) == (val == "baseline"))))
    if fam == "fish":
        f = tc["FISH_PERCENT_MONTHLY"]
        if val == "zero":
            out.append(("fish zero: no month has fish", sb(all(float(x) == 0 for x in f))))
        elif val == "baseline":
            out.append(("fish baseline: every month at 100 percent", sb(all(float(x) == 100 for x in f))))
        else:
            out.append(("fish in nuclear winter: between 0 and 100 percent, one value per month", sb(len(f) >= NM and all(0 <= float(x) <= 100 for x in f[:NM]))))
    if fam == "nutrition":
        n = c["NUTRITION"]
        lim = dict(baseline=(2100, 61.7, 59.5), catastrophe=(2100, 47, 51))[val]
        out.append(("daily requirements as documented for the setting (catastrophe not above baseline)", conj([eq(n["KCALS_DAILY"], lim[0]), eq(n["FAT_DAILY"], lim[1]), eq(n["PROTEIN_DAILY"], lim[2])])))
    return out


def cases():
    out = [dict(family="base", value="")]
    for fam, vals in (("waste", ["zero", "baseline_in_country", "doubled_prices_in_country", "tripled_prices_in_country"]), ("shutoff", list(SHUTOFF)),
                      ("scenario", list(RESILIENT) + ["all_resilient_foods", "all_resilient_foods_and_more_area"]), ("crop_disruption", ["zero", "country_nuclear_winter", "all_crops_die_instantly"]),
                      ("grasses", ["baseline", "country_nuclear_winter", "all_crops_die_instantly"]), ("seasonality", ["country", "no_seasonality"]), ("stored_food", ["zero", "baseline"]),
                      ("fish", ["zero", "baseline", "nuclear_winter"]), ("nutrition", ["baseline", "catastrophe"])):
        out += [dict(family=fam, value=v) for v in vals]
    return out


def _run(sc, rs, H, E, case, values=None):
    row0 = H._ROW
    r = Row()
    for k, v in row0.items():
        if isinstance(v, (int, float, np.floating, np.integer)) and not isinstance(v, (bool, np.bool_)) and not k.startswith("seaweed_growth") and k not in ("include_greenhouse",):
            if values is None:
                x = E.real("row_" + k)
                lo, hi = (-1, 1) if "reduction" in k else (0, 1e9)
                E.assume(x >= lo)
                E.assume(x <= hi)
                r[k] = x
            else:
                r[k] = np.float64(values.get("row_" + k, float(v)))
        else:
            r[k] = v
    opt = dict(H.BASE)
    if case["family"] != "base":
        opt[case["family"]] = case["value"]
    c, tc, loader = rs.ScenarioRunner().set_depending_on_option(opt, country_data=r)
    return r, c, tc, opt["NMONTHS"]


def worker_row(case, seed):
    sc, rs, H = _mods()
    E = Engine(seed=seed, max_paths=400, query_timeout_ms=30000)

    def h(E):
        with patched(sc, isinstance_=True), contextlib.redirect_stdout(io.StringIO()):
            r, c, tc, NM = _run(sc, rs, H, E, case)
        for label, cond in _expect(E, case["family"], case["value"], r, c, tc, NM):
            E.check(label, cond)
    E.explore(h)
    return E.summary()


def replay_row(case, cx):
    sc, rs, H = _mods()
    case = case if isinstance(case, dict) else json.loads(case)
    m = vlib.model_floats(cx["model"])
    try:
        with contextlib.redirect_stdout(io.StringIO()):
            r, c, tc, NM = _run(sc, rs, H, None, case, values=m)
    except AssertionError as e:
        return dict(reproduced=False, what="the code's own assertion fires on this row: %s" % str(e)[:100])
    bad = []
    for label, cond in _expect(None, case["family"], case["value"], r, c, tc, NM):
        ok = bool(cond.b) if hasattr(cond, "b") and isinstance(cond.b, bool) else None
        if ok is None:
            import z3
            ok = z3.is_true(z3.simplify(cond.b)) if hasattr(cond, "b") else bool(cond)
        if not ok:
            bad.append(label)
    return dict(reproduced=bool(bad), what="%s=%s: %s" % (case["family"], case["value"], "; ".join(bad[:3])), inputs=dict(case=case, row={k: v for k, v in m.items()}), key="row/%s/%s" % (case["family"], (bad[0][:40] if bad else "")))


GROUP = dict(name="constants_come_from_the_documented_cells_of_the_country_row", fn="harness.rowwiring:worker_row", replay=replay_row,
             functions=["ScenarioRunner.set_depending_on_option", "Scenarios.init_country_food_system_properties", "Scenarios.set_country_waste_to_*", "get_distribution_waste", "set_*_shutoff / set_continued_*",
                        "get_*_resilient_food scenario setters", "set_country_seasonality / set_no_seasonality", "set_nuclear_winter_country_crop_disruption", "set_country_nuclear_winter_grasses", "set_fish_*",
                        "set_stored_food_*", "set_*_nutrition_profile"],
             bounds="one option family varied at a time over its documented values (35 cases), the others at a shipped preset; 48 months; country scale",
             symbolic="every numeric cell of the country's data row (about 100 columns: population, crops, feed, biofuel, fish, stocks per month, seasonality per month, crop and grass reductions per year, waste per food and price level, ...)",
             assumptions=["cells in [0, 1e9] (reductions in [-1, 1])", "paths on which the code's own validation of the row asserts are pruned and counted",
                          "the oracle is the README's wording plus the column names (e.g. 'crop_reduction_year7' is year 7's reduction)"],
             stubs=["the row is a dict subclass instead of a pandas Series (cells are z3 terms)", "scenarios.isinstance accepts symbolic numbers as float"],
             outside=["constants the README does not tie to a cell or a number (greenhouse gain, seaweed fractions, rotation ratios)", "`global` scale"])
