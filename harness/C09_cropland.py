"""C09 Cropland is neither double-counted nor lost between crops and greenhouses.

Real code under SYMX: OutdoorCrops.__init__/calculate_rotation_ratios/calculate_monthly_production/assign_reduction_from_climate_impact/
assign_increase_from_increased_cultivated_area/set_crop_production_minus_greenhouse_area, Greenhouses.__init__/get_greenhouse_area/
assign_productivity_reduction_from_climate_impact.
"""
import json
import numpy as np
import z3

import vlib
from symx.engine import Engine, SymReal, SymBool, zsum, close, sb, implies, conj
from symx.npproxy import patched, STUBS, IntArray
from harness import supply as S

PID = "C09"
MOD = "harness.C09_cropland"
REL = 1e-9


def _mods():
    import src.food_system.outdoor_crops as oc
    import src.food_system.greenhouses as gh
    import src.food_system.food as fd
    return oc, gh, fd


REGIMES = {
    "below_one": lambda i: "le1",
    "above_one": lambda i: "gt1",
    "mixed": lambda i: "le1" if i % 2 else "gt1",
    "free_2_5": lambda i: "free" if i in (2, 5) else "le1",
}


CONCRETE_RATIOS = {"le1": [0.9, 0.6, 0.45, 0.5, 0.6, 0.7, 0.8, 0.9, 0.95, 1.0], "gt1": [1.1, 1.6, 1.45, 1.5, 1.6, 1.7, 1.8, 1.9, 1.95, 2.0]}


def _inputs(E, case):
    """which inputs are symbolic: 'ratios' (baseline concrete), 'base' (ratios concrete) or 'both' (non-linear, used on a subset of months)."""
    sym = case.get("sym", "both")
    if sym in ("base", "both"):
        base = E.real("baseline_crop_kcals")
        E.assume(base >= 0)
        E.assume(base <= 1e10)
    else:
        base = case.get("base", 1000.0)
    if sym in ("ratios", "both"):
        rs = _ratios(E, case["regime"])
    else:
        rs = []
        for i in range(1, 11):
            kind = REGIMES[case["regime"]](i)
            rs.append(CONCRETE_RATIOS["gt1" if kind == "gt1" else "le1"][i - 1])
    return base, rs


def _model_inputs(case, m):
    sym = case.get("sym", "both")
    base = m["baseline_crop_kcals"] if sym in ("base", "both") else case.get("base", 1000.0)
    if sym in ("ratios", "both"):
        rs = [m["ratio_year%d" % i] for i in range(1, 11)]
    else:
        rs = [CONCRETE_RATIOS["gt1" if REGIMES[case["regime"]](i) == "gt1" else "le1"][i - 1] for i in range(1, 11)]
    return base, rs


def _ratios(E, regime):
    rs = []
    for i in range(1, 11):
        r = E.real("ratio_year%d" % i)
        kind = REGIMES[regime](i)
        E.assume(r >= 0)
        E.assume(r <= 3)
        if kind == "le1":
            E.assume(r > 0)
            E.assume(r <= 1)
        elif kind == "gt1":
            E.assume(r > 1)
        rs.append(r)
    return rs


def _grown_expected(c, base, rs, m, relocated):
    """grown in simulated month m before greenhouses and waste (billion kcals), from the statement."""
    annual = base * (1 - S.SEED_FRACTION) * S.BILLION_KCALS_PER_TON
    yr = S.year_of_month(m)
    ratio = S.year1_ratio(rs[0], S.SEASON, c["COUNTRY_CODE"]) if yr == 1 else rs[yr - 1]
    month = annual * S.SEASON[S.calendar_index(m)]
    if relocated and c["OG_USE_BETTER_ROTATION"]:
        e = c["ROTATION_IMPROVEMENTS"]["POWER_LAW_IMPROVEMENT"]
        eff = ratio if (ratio > 1) else ratio ** e
        return month * eff * S.area_expansion(m, c["RATIO_INCREASED_CROP_AREA"], c["INITIAL_HARVEST_DURATION_IN_MONTHS"], c["NUMBER_YEARS_TAKES_TO_REACH_INCREASED_AREA"])
    return month * ratio


def worker_outdoor(case, seed):
    oc, gh, fd = _mods()
    NM = case["NM"]
    E = Engine(seed=seed, max_paths=400, query_timeout_ms=30000)
    months = case.get("months") or list(range(NM))

    E.div0_mode = "numpy"   # table values are numpy float64: a zero baseline gives inf/nan (guarded by the code), not an exception

    def h(E):
        base, rs = _inputs(E, case)
        c = S.crop_constants(NM, base, rs, case["rotation"], exponent=case.get("exponent", 0.8), add_gh=case["gh"], gh_delay=case.get("gh_delay", 2),
                             gh_mult=case.get("gh_mult", 0.19e9 / 1.43e9), increased_area=case.get("area", 1), dist=case.get("dist", 5.0))
        with patched(oc, gh, fd, isinstance_=True):
            o, g, area = S.run_outdoor(oc, gh, c)
        E.check("no monthly quantity is truncated to a whole number", len(E.trunc_events) == 0, info=str(E.trunc_events[:1]))
        E.check("one value per month", len(o.production.kcals) == NM and len(g.greenhouse_fraction_area) == NM)
        hd = c["INITIAL_HARVEST_DURATION_IN_MONTHS"] + c["DELAY"]["ROTATION_CHANGE_IN_MONTHS"]
        dist = 1 - c["WASTE_DISTRIBUTION"]["CROPS"] / 100
        for m in months:
            frac = S.greenhouse_fraction(m, c["DELAY"]["GREENHOUSE_MONTHS"], c["GREENHOUSE_AREA_MULTIPLIER"], NM) if case["gh"] else 0
            E.check("greenhouse share of cropland follows the delay-then-ramp schedule", close(g.greenhouse_fraction_area[m], frac, REL, 1e-15))
            grown = _grown_expected(c, base, rs, m, relocated=(m >= hd))
            want = grown * (1 - frac) * dist
            E.check("outdoor output = grown x (1 - greenhouse share) x (1 - distribution waste)", close(o.production.kcals[m], want, REL, 1e-12))
            E.check("outdoor output finite and non-negative", o.production.kcals[m] >= 0)
            if case["rotation"]:
                E.check("relocated crops never below non-relocated", o.KCALS_GROWN[m] >= o.NO_RELOCATION_KCALS_GROWN[m])
    E.explore(h)
    return E.summary()


def _concrete_run(case, m):
    oc, gh, fd = _mods()
    NM = case["NM"]
    base, rs = _model_inputs(case, m)
    c = S.crop_constants(NM, base, rs, case["rotation"], exponent=case.get("exponent", 0.8), add_gh=case["gh"], gh_delay=case.get("gh_delay", 2),
                         gh_mult=case.get("gh_mult", 0.19e9 / 1.43e9), increased_area=case.get("area", 1), dist=case.get("dist", 5.0))
    o, g, area = S.run_outdoor(oc, gh, c)
    return c, o, g, base, rs


def replay_outdoor(case, cx):
    case = case if isinstance(case, dict) else json.loads(case)
    m = vlib.model_floats(cx["model"])
    try:
        c, o, g, base, rs = _concrete_run(case, m)
    except AssertionError as e:
        return dict(reproduced=False, what="code's own assertion fires on this input: %s" % e)
    NM = case["NM"]
    hd = c["INITIAL_HARVEST_DURATION_IN_MONTHS"] + c["DELAY"]["ROTATION_CHANGE_IN_MONTHS"]
    dist = 1 - c["WASTE_DISTRIBUTION"]["CROPS"] / 100
    bad = []
    worst = None
    for mm in range(NM):
        frac = S.greenhouse_fraction(mm, c["DELAY"]["GREENHOUSE_MONTHS"], c["GREENHOUSE_AREA_MULTIPLIER"], NM) if case["gh"] else 0
        if abs(g.greenhouse_fraction_area[mm] - frac) > 1e-9:
            bad.append("greenhouse share month %d is %r, schedule says %r" % (mm, g.greenhouse_fraction_area[mm], frac))
        grown = _grown_expected(c, base, rs, mm, relocated=(mm >= hd))
        want = grown * (1 - frac) * dist
        got = float(o.production.kcals[mm])
        if abs(got - want) > 1e-7 * (1 + abs(want)):
            if worst is None or abs(got - want) > abs(worst[1] - worst[2]):
                worst = (mm, got, want)
        if case["rotation"] and o.KCALS_GROWN[mm] < o.NO_RELOCATION_KCALS_GROWN[mm] - 1e-9:
            bad.append("relocation lowered month %d" % mm)
    kind = None
    if worst:
        mm, got, want = worst
        frac = S.greenhouse_fraction(mm, c["DELAY"]["GREENHOUSE_MONTHS"], c["GREENHOUSE_AREA_MULTIPLIER"], NM) if case["gh"] else 0
        if abs(got - np.trunc(want / dist) * dist) < 1e-9 * (1 + abs(want)) and case["rotation"]:
            kind = "monthly output truncated to whole billions of kcal (relocation branch)"
        elif frac > 0 and not case["rotation"] and abs(got - want / (1 - frac)) < 1e-7 * (1 + abs(want)):
            kind = "greenhouse share of cropland not removed from outdoor output (no-relocation branch)"
        else:
            kind = "outdoor output differs from grown x (1 - greenhouse share) x (1 - waste)"
        bad.insert(0, "%s: month %d output %r, expected %r" % (kind, mm, got, want))
    return dict(reproduced=bool(bad), what="OutdoorCrops (rotation=%s, greenhouses=%s): %s" % (case["rotation"], case["gh"], "; ".join(bad[:2])),
                inputs=dict(case=case, baseline_crop_kcals=base, ratios=rs), observed=dict(worst=worst), key="outdoor/" + (kind or (bad[0].split(" month")[0][:50] if bad else "")))


def worker_gh_area(case, seed):
    """greenhouse area with a symbolic configured share of cropland: zero until the delay has passed, monotone, capped."""
    oc, gh, fd = _mods()
    NM = case["NM"]
    E = Engine(seed=seed, max_paths=50)

    def h(E):
        mult = E.real("greenhouse_share")
        E.assume(mult >= 0)
        E.assume(mult <= 1)
        c = S.crop_constants(NM, 1000.0, [0.9, 0.6, 0.5, 0.5, 0.6, 0.7, 0.8, 0.9, 0.95, 1.0], case["rotation"], add_gh=True, gh_delay=case["delay"], gh_mult=mult,
                             area_fraction=case.get("area_fraction", 0.01))
        with patched(oc, gh, fd, isinstance_=True):
            o, g, area = S.run_outdoor(oc, gh, c)
        fr = g.greenhouse_fraction_area
        total = 1.43e9 * c["INITIAL_CROP_AREA_FRACTION"]
        E.check("one value per month", len(fr) == NM and len(area) == NM)
        for m in range(NM):
            if m < case["delay"] + 5:
                E.check("greenhouse area is zero until its delay has passed", conj([fr[m] == 0, area[m] == 0]))
            E.check("greenhouse share within [0, configured share]", conj([fr[m] >= 0, fr[m] <= mult * (1 + REL)]))
            E.check("greenhouse share follows the documented ramp", close(fr[m], S.greenhouse_fraction(m, case["delay"], mult, NM), REL, 1e-15))
            E.check("greenhouse area = share x cropland", close(area[m], fr[m] * total, REL, 1e-9))
            if m > 0:
                E.check("greenhouse area never shrinks", fr[m] >= fr[m - 1])
        E.check("configured share is reached", close(fr[NM - 1], mult, REL, 1e-15) if NM - 1 >= case["delay"] + 5 + 36 else True)
    E.explore(h)
    return E.summary()


def replay_gh_area(case, cx):
    oc, gh, fd = _mods()
    case = case if isinstance(case, dict) else json.loads(case)
    m = vlib.model_floats(cx["model"])
    NM = case["NM"]
    c = S.crop_constants(NM, 1000.0, [0.9, 0.6, 0.5, 0.5, 0.6, 0.7, 0.8, 0.9, 0.95, 1.0], case["rotation"], add_gh=True, gh_delay=case["delay"], gh_mult=m["greenhouse_share"],
                         area_fraction=case.get("area_fraction", 0.01))
    o, g, area = S.run_outdoor(oc, gh, c)
    fr = g.greenhouse_fraction_area
    bad = []
    for mm in range(NM):
        want = S.greenhouse_fraction(mm, case["delay"], m["greenhouse_share"], NM)
        if abs(fr[mm] - want) > 1e-9:
            bad.append("month %d share %r, schedule %r" % (mm, fr[mm], want))
        if mm and fr[mm] < fr[mm - 1] - 1e-12:
            bad.append("area shrinks in month %d" % mm)
    return dict(reproduced=bool(bad), what="Greenhouses.get_greenhouse_area (delay %d): %s" % (case["delay"], "; ".join(bad[:2])), inputs=dict(case=case, share=m["greenhouse_share"]),
                observed=[float(x) for x in fr[:50]], key="gh_area/schedule")


def worker_compare(case, seed):
    """relocation / expansion never lower any month's output relative to not doing so (same greenhouse setting)."""
    oc, gh, fd = _mods()
    NM = case["NM"]
    E = Engine(seed=seed, max_paths=400, query_timeout_ms=30000)

    E.div0_mode = "numpy"

    def h(E):
        base, rs = _inputs(E, case)
        outs = []
        for variant in case["variants"]:
            c = S.crop_constants(NM, base, rs, variant["rotation"], exponent=case.get("exponent", 0.8), add_gh=case["gh"], increased_area=variant.get("area", 1))
            with patched(oc, gh, fd, isinstance_=True):
                o, g, area = S.run_outdoor(oc, gh, c)
            outs.append(o.production.kcals)
        lo, hi = outs
        for m in range(NM):
            E.check(case["claim"], hi[m] >= lo[m] * (1 - REL))
    E.explore(h)
    return E.summary()


def replay_compare(case, cx):
    oc, gh, fd = _mods()
    case = case if isinstance(case, dict) else json.loads(case)
    m = vlib.model_floats(cx["model"])
    NM = case["NM"]
    base, rs = _model_inputs(case, m)
    outs = []
    try:
        for variant in case["variants"]:
            c = S.crop_constants(NM, base, rs, variant["rotation"], exponent=case.get("exponent", 0.8), add_gh=case["gh"], increased_area=variant.get("area", 1))
            o, g, area = S.run_outdoor(oc, gh, c)
            outs.append(np.array(o.production.kcals, dtype=float))
    except AssertionError as e:
        return dict(reproduced=False, what="code's own assertion fires: %s" % e)
    d = outs[1] - outs[0]
    worst = int(np.argmin(d - 1e-7 * (1 + abs(outs[0]))))
    bad = d[worst] < -1e-7 * (1 + abs(outs[0][worst]))
    return dict(reproduced=bool(bad), what="%s violated in month %d: %r -> %r (greenhouses=%s)" % (case["claim"], worst, outs[0][worst], outs[1][worst], case["gh"]),
                inputs=dict(case=case, baseline_crop_kcals=base, ratios=rs), observed=dict(month=worst, without=float(outs[0][worst]), with_=float(outs[1][worst])),
                key="compare/" + case["claim"][:40] + ("/greenhouses" if case["gh"] else ""))


def main(tier, seed, only=None):
    rep = vlib.Report(PID, tier, seed)
    thorough = tier == "thorough"
    horizons = [48, 120] if not thorough else [48, 60, 72, 84, 96, 108, 120]
    out_cases = []
    for NM in horizons:
        for rot in (True, False):
            for g in (True, False):
                regs = ["below_one", "mixed"] + (["above_one", "free_2_5"] if (thorough or NM == 48) else [])
                for reg in regs:
                    out_cases.append(dict(NM=NM, rotation=rot, gh=g, regime=reg, sym="ratios", base=1000.0))
                out_cases.append(dict(NM=NM, rotation=rot, gh=g, regime="below_one", sym="ratios", base=0.37))   # fractions of a billion kcal per month
                out_cases.append(dict(NM=NM, rotation=rot, gh=g, regime="mixed", sym="base"))
        out_cases.append(dict(NM=NM, rotation=True, gh=True, regime="below_one", area=72 / 39, sym="ratios"))
        out_cases.append(dict(NM=NM, rotation=True, gh=False, regime="mixed", area=72 / 39, exponent=1.0, sym="base"))
        if thorough:
            out_cases.append(dict(NM=NM, rotation=True, gh=True, regime="below_one", gh_delay=0, gh_mult=1.0, sym="ratios"))
            out_cases.append(dict(NM=NM, rotation=False, gh=True, regime="below_one", gh_delay=6, gh_mult=0.5, dist=0.0, sym="ratios"))
    # joint (baseline and ratios symbolic -> QF_NRA) on a subset of months
    sub = [0, 1, 7, 8, 9, 10, 11, 19, 20, 31, 32, 43, 44, 47]
    for rot in (True, False):
        for g in (True, False):
            out_cases.append(dict(NM=48, rotation=rot, gh=g, regime="below_one", sym="both", months=sub if not thorough else None))
    gh_cases = [dict(NM=NM, delay=d, rotation=r) for NM in horizons for d in (range(0, 7) if thorough else (0, 2, 6)) for r in (True, False)]
    cmp_cases = []
    for NM in ([48] if not thorough else [48, 120]):
        for g in (False, True):
            for reg in ("below_one", "mixed"):
                for sym in ("ratios", "base"):
                    cmp_cases.append(dict(NM=NM, gh=g, regime=reg, sym=sym, variants=[dict(rotation=False), dict(rotation=True)], claim="relocated crops never lower a month's output"))
                    cmp_cases.append(dict(NM=NM, gh=g, regime=reg, sym=sym, variants=[dict(rotation=True), dict(rotation=True, area=72 / 39)], claim="expanded cropland never lowers a month's output"))
    stubs = STUBS + ["food.isinstance accepts SymReal as float", "x**e (0<e<1) as an uninterpreted function with the axioms of DESIGN 3.1 (same function symbol in code path and oracle)"]
    assume = ["baseline >= 0 (<= 1e10 tons), yearly ratios in the regime of the case ((0,1], >1, or free in [0,3])", "seasonality concrete (12 distinct shares summing to 1), distribution waste concrete",
              "cropland share, greenhouse delay, harvest duration concrete as shipped unless the case says otherwise"]
    groups = [
        dict(name="outdoor_output_vs_greenhouse_share", fn="worker_outdoor", cases=out_cases, replay=replay_outdoor,
             functions=["OutdoorCrops.__init__", "calculate_rotation_ratios", "calculate_monthly_production", "get_year_1_ratio_using_fraction_harvest_before_may", "assign_reduction_from_climate_impact",
                        "assign_increase_from_increased_cultivated_area", "set_crop_production_minus_greenhouse_area", "Greenhouses.get_greenhouse_area", "assign_productivity_reduction_from_climate_impact"],
             bounds="horizons %s (every month checked) x relocation on/off x greenhouses on/off x ratio regimes x expansion" % horizons,
             symbolic="per case: the 10 yearly disruption ratios (baseline 1000 or 0.37), or the annual crop baseline (ratios fixed), or both (QF_NRA, 48 months)", assumptions=assume, stubs=stubs,
             outside=["symbolic seasonality / waste (products of three symbols)", "joint baseline x ratio quantification beyond the 48-month cases", "IEEE rounding"]),
        dict(name="greenhouse_area_schedule", fn="worker_gh_area", cases=gh_cases, replay=replay_gh_area, functions=["Greenhouses.get_greenhouse_area"],
             bounds="horizons %s x delay in {0..6} x relocation on/off" % horizons, symbolic="configured greenhouse share of cropland in [0,1]", assumptions=[], stubs=stubs, outside=[]),
        dict(name="relocation_and_expansion_never_lower_output", fn="worker_compare", cases=cmp_cases, replay=replay_compare,
             functions=["the same OutdoorCrops / Greenhouses chain, executed twice with and without the measure"], bounds="horizon 48 (thorough: 48,120), greenhouses on/off, two ratio regimes",
             symbolic="annual crop baseline and the yearly ratios", assumptions=assume, stubs=stubs, outside=[]),
    ]
    vlib.run_groups(rep, MOD, groups, seed, only)
    return rep.finish()


def replay_file(path):
    rec = json.load(open(path))
    print(json.dumps(rec, indent=1)[:3000])
    return 0
