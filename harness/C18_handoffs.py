"""C18 Hand-offs between rounds preserve totals, bounds and priorities.

Real code executed symbolically (SYMX): Parameters.calculate_human_consumption_for_min_needs (with the two
Validator.verify_* self-checks it calls), Parameters.fill_negatives_with_positives,
Parameters.get_second_round_kcals_with_redistributed_meat, Parameters.increase_biofuels_then_feed.
"""
import io
import contextlib
import types
import numpy as np

import vlib
from symx.engine import Engine, SymReal, SymBool, zsum, close, sb, implies, conj
from symx.npproxy import patched, STUBS
import z3

PID = "C18"
FOODS = ["fish", "meat", "dairy", "greenhouse", "outdoor_crops", "stored_food", "methane_scp", "cellulosic_sugar", "seaweed"]
ATTR = dict(fish="fish_kcals_equivalent", meat="meat_kcals_equivalent", dairy="milk_kcals_equivalent",
            greenhouse="greenhouse_kcals_equivalent", stored_food="stored_food_kcals_equivalent",
            methane_scp="scp_kcals_equivalent", cellulosic_sugar="cell_sugar_kcals_equivalent", seaweed="seaweed_kcals_equivalent")
TOL_BUMP = 1e-8   # billion kcals: covers the code's own +1e-9 regulariser (exact overshoot bound is 1e-9)


def _mods():
    import src.optimizer.parameters as pm
    import src.food_system.food as fd
    import src.optimizer.validate_results as vr
    return pm, fd, vr


# ------------------------------------------------------------------ bump
def _run_bump(pm, vals, L):
    p = pm.Parameters()
    arr = lambda k: np.array([vals["%s_%d" % (k, i)] for i in range(L)], dtype=object)
    return p.increase_biofuels_then_feed(arr("b"), arr("f"), arr("inc"), arr("mb"), arr("mf"), arr("tot"))


def worker_bump(case, seed):
    pm, fd, vr = _mods()
    L = case["L"]
    pre = case["pre"]
    E = Engine(seed=seed)
    E.prune_on = ()

    def h(E):
        vals = {}
        for k in ("b", "f", "inc", "mb", "mf", "tot"):
            for i in range(L):
                v = E.real("%s_%d" % (k, i))
                vals["%s_%d" % (k, i)] = v
                E.assume(v >= 0)
                E.assume(v <= 1e7)
        if pre == "within_demand":
            for i in range(L):
                E.assume(vals["b_%d" % i] <= vals["mb_%d" % i])
                E.assume(vals["f_%d" % i] <= vals["mf_%d" % i])
        with patched(pm):
            nb, nf = _run_bump(pm, vals, L)
        for i in range(L):
            b, f, mb, mf = (vals["%s_%d" % (k, i)] for k in ("b", "f", "mb", "mf"))
            E.check("biofuel never lowered", nb[i] >= b)
            E.check("feed never lowered", nf[i] >= f)
            if pre == "within_demand":
                E.check("biofuel <= demand (+1e-8)", nb[i] <= mb + TOL_BUMP)
                E.check("feed <= demand (+1e-8)", nf[i] <= mf + TOL_BUMP)
            else:
                mxb = mb if (mb >= b) else b
                mxf = mf if (mf >= f) else f
                E.check("biofuel <= max(old, demand) (+1e-8)", nb[i] <= mxb + TOL_BUMP)
                E.check("feed <= max(old, demand) (+1e-8)", nf[i] <= mxf + TOL_BUMP)
    E.explore(h)
    return E.summary()


def replay_bump(case, cx):
    pm, fd, vr = _mods()
    case = case if isinstance(case, dict) else __import__("json").loads(case)
    L = case["L"]
    m = vlib.model_floats(cx["model"])
    arr = lambda k: np.array([m["%s_%d" % (k, i)] for i in range(L)], dtype=float)
    b, f, inc, mb, mf, tot = (arr(k) for k in ("b", "f", "inc", "mb", "mf", "tot"))
    nb, nf = pm.Parameters().increase_biofuels_then_feed(b.copy(), f.copy(), inc, mb, mf, tot)
    bad = []
    if (nb < b - 1e-12).any():
        bad.append("biofuel lowered")
    if (nf < f - 1e-12).any():
        bad.append("feed lowered")
    if (nb > np.maximum(mb, b) + 2 * TOL_BUMP).any():
        bad.append("biofuel above demand")
    if (nf > np.maximum(mf, f) + 2 * TOL_BUMP).any():
        bad.append("feed above demand")
    return dict(reproduced=bool(bad), what="increase_biofuels_then_feed: " + ", ".join(bad),
                inputs=dict(biofuel=list(b), feed=list(f), increase=list(inc), max_biofuel=list(mb), max_feed=list(mf), total=list(tot)),
                observed=dict(biofuel=list(map(float, nb)), feed=list(map(float, nf))),
                key="bump/" + (bad[0] if bad else ""))


# ------------------------------------------------------------------ redistribution of meat
def worker_redis(case, seed):
    pm, fd, vr = _mods()
    N = case["N"]
    E = Engine(seed=seed, max_paths=60000)
    E.prune_on = ()

    def h(E):
        r1 = E.reals("r1", N)
        r2 = E.reals("r2", N)
        for v in r1 + r2:
            E.assume(v >= 0)
            E.assume(v <= 1e7)
        a1 = np.array(r1, dtype=object)
        a2 = np.array(r2, dtype=object)
        with patched(pm), contextlib.redirect_stdout(io.StringIO()):
            try:
                out = pm.Parameters().get_second_round_kcals_with_redistributed_meat(a1, a2, None, None)
            except AssertionError:
                E.fail("self-check in get_second_round_kcals_with_redistributed_meat fires on valid input")
                return
        ge = zsum(r2) >= zsum(r1)
        if out is None:
            E.check("None only when round-2 total < round-1 total", ~ge)
            return
        E.check("result returned only when round-2 total >= round-1 total", ge)
        E.check("total preserved", zsum(list(out)) == zsum(r2))
        for i in range(N):
            E.check("month >= no-feed level", out[i] >= r1[i])
            E.check("month non-negative", out[i] >= 0)
    E.explore(h)
    return E.summary()


def worker_fill(case, seed):
    pm, fd, vr = _mods()
    N = case["N"]
    E = Engine(seed=seed, max_paths=60000)
    E.prune_on = ()

    def h(E):
        xs = E.reals("x", N)
        for v in xs:
            E.assume(v >= -1e7)
            E.assume(v <= 1e7)
        if case["sum"] == "nonneg":
            E.assume(zsum(xs) >= 0)
        with patched(pm):
            out = pm.Parameters().fill_negatives_with_positives(np.array(xs, dtype=object))
        E.check("sum preserved", zsum(list(out)) == zsum(xs))
        for i in range(N):
            if case["sum"] == "nonneg":
                E.check("all entries >= 0 when total >= 0", out[i] >= 0)
            neg = sb(xs[i] < 0)
            E.check("deficit months only rise, never above 0", implies(neg, conj([out[i] >= xs[i], out[i] <= 0])))
            E.check("surplus months only fall, never below 0", implies(~neg, conj([out[i] <= xs[i], out[i] >= 0])))
    E.explore(h)
    return E.summary()


def replay_redis(case, cx):
    pm, fd, vr = _mods()
    case = case if isinstance(case, dict) else __import__("json").loads(case)
    N = case["N"]
    m = vlib.model_floats(cx["model"])
    if "x_0" in m:
        xs = np.array([m["x_%d" % i] for i in range(N)], dtype=float)
        out = pm.Parameters().fill_negatives_with_positives(xs.copy())
        bad = []
        if abs(out.sum() - xs.sum()) > 1e-6 * (1 + abs(xs).sum()):
            bad.append("sum changed")
        if xs.sum() >= 0 and (out < -1e-9 * (1 + abs(xs).sum())).any():
            bad.append("negative entry left although total >= 0")
        if ((xs < 0) & ((out < xs - 1e-9) | (out > 1e-9))).any() or ((xs >= 0) & ((out > xs + 1e-9) | (out < -1e-9))).any():
            bad.append("entry moved the wrong way")
        return dict(reproduced=bool(bad), what="fill_negatives_with_positives: " + ", ".join(bad), inputs=dict(arr=list(xs)), observed=list(map(float, out)),
                    key="fill/" + (bad[0] if bad else ""))
    r1 = np.array([m["r1_%d" % i] for i in range(N)], dtype=float)
    r2 = np.array([m["r2_%d" % i] for i in range(N)], dtype=float)
    bad = []
    with contextlib.redirect_stdout(io.StringIO()):
        try:
            out = pm.Parameters().get_second_round_kcals_with_redistributed_meat(r1.copy(), r2.copy(), None, None)
        except AssertionError as e:
            out = "assert"
            bad.append("self-check fires on valid input")
    scale = 1 + r1.sum() + r2.sum()
    if out is None:
        if r2.sum() >= r1.sum() + 1e-9 * scale:
            bad.append("None although round-2 total >= round-1 total")
    elif not isinstance(out, str):
        if r2.sum() < r1.sum() - 1e-9 * scale:
            bad.append("result although round-2 total < round-1 total")
        if abs(out.sum() - r2.sum()) > 1e-9 * scale:
            bad.append("total changed")
        if (out < r1 - 1e-9 * scale).any():
            bad.append("month below no-feed level")
        if (out < -1e-9 * scale).any():
            bad.append("negative month")
    return dict(reproduced=bool(bad), what="get_second_round_kcals_with_redistributed_meat: " + ", ".join(bad),
                inputs=dict(round1=list(r1), round2=list(r2)), observed=None if out is None else (out if isinstance(out, str) else list(map(float, out))),
                key="redis/" + (bad[0] if bad else ""))


# ------------------------------------------------------------------ minimum human needs
def _stub_results(fd, N, series, pf):
    def F(vals):
        z = np.array([np.float64(0.0)] * N, dtype=object)
        return fd.Food(np.array(vals, dtype=object), z.copy(), z.copy(), "kcals per person per day each month",
                       "effective kcals per person per day each month", "effective kcals per person per day each month")
    ir = types.SimpleNamespace(percent_people_fed=pf, include_fat=False, include_protein=False)
    for food, attr in ATTR.items():
        setattr(ir, attr, F(series[food]))
    setattr(ir, "immediate_outdoor_crops_kcals_equivalent", F(series["oc_immediate"]))
    setattr(ir, "new_stored_outdoor_crops_kcals_equivalent", F(series["oc_new_stored"]))
    return ir


def _avail(series, food, m):
    if food == "outdoor_crops":
        return series["oc_immediate"][m] + series["oc_new_stored"][m]
    return series[food][m]


KD = 2100.0


def worker_minneeds(case, seed):
    pm, fd, vr = _mods()
    N = case["N"]
    sym_foods = case["foods"]
    E = Engine(seed=seed, max_paths=60000)
    E.prune_on = ()
    E.div0_mode = "numpy"   # the Validator divides float64 arrays (usage/available): inf/nan, then skipped by its own guard

    def h(E):
        series = {}
        keys = [f for f in FOODS if f != "outdoor_crops"] + ["oc_immediate", "oc_new_stored"]
        for k in keys:
            base = "outdoor_crops" if k.startswith("oc_") else k
            if base in sym_foods:
                series[k] = E.reals(k, N)
                for v in series[k]:
                    E.assume(v >= 0)
                    E.assume(v <= 1e5)
            else:
                series[k] = [np.float64(0.0)] * N
        T = E.real("T")
        pf = E.real("pf")
        E.assume((T >= 0) & (T <= 100))
        E.assume(pf >= 0)
        E.assume(pf <= 1000)
        tot = [zsum([_avail(series, f, m) for f in FOODS]) for m in range(N)]
        # headline of round 1 is the minimum over months of what people ate (C04): every month's total >= pf
        for m in range(N):
            E.assume(tot[m] >= pf / 100 * KD)
        ci = dict(MINIMUM_PERCENT_FED_BEFORE_NONHUMAN_CONSUMPTION_ALLOWED=T, NUTRITION=dict(KCALS_DAILY=KD), NMONTHS=N)
        ir = _stub_results(fd, N, series, pf)
        extra = {}
        if not case.get("validators", True):
            noop = types.SimpleNamespace(verify_minimum_food_consumption_sum_round2=lambda *a, **k: None,
                                         verify_food_usage_priorities_round2=lambda *a, **k: None)
            extra = {(pm, "Validator"): noop}
        with patched(pm, fd, vr, isinstance_=True, extra=extra):
            try:
                out = pm.Parameters().calculate_human_consumption_for_min_needs(ci, ir, None)
            except AssertionError as e:
                E.fail("self-check inside calculate_human_consumption_for_min_needs fires on valid input", info=str(e)[:200])
                return
        cap = (T if (pf > T) else pf) / 100 * KD
        for m in range(N):
            s = zsum([out[f].kcals[m] for f in FOODS])
            E.check("monthly sum == min(no-feed result, threshold)", close(s, cap, 1e-9, 1e-9))
            for i, f in enumerate(FOODS):
                E.check("each food <= eaten in no-feed round", out[f].kcals[m] <= _avail(series, f, m))
                E.check("each food >= 0", out[f].kcals[m] >= 0)
                if i > 0:
                    prev_full = conj([out[g].kcals[m] == _avail(series, g, m) for g in FOODS[:i]])
                    E.check("priority order: later food used only if earlier foods exhausted", implies(out[f].kcals[m] > 0, prev_full))
        E.check("keys and order", list(out.keys()) == FOODS)
    old = fd.Food.conversions.__dict__.copy()
    try:
        fd.Food.conversions.kcals_daily = KD
        E.explore(h)
    finally:
        fd.Food.conversions.__dict__.clear()
        fd.Food.conversions.__dict__.update(old)
    return E.summary()


def replay_minneeds(case, cx):
    pm, fd, vr = _mods()
    case = case if isinstance(case, dict) else __import__("json").loads(case)
    N = case["N"]
    m = vlib.model_floats(cx["model"])
    series = {}
    for k in [f for f in FOODS if f != "outdoor_crops"] + ["oc_immediate", "oc_new_stored"]:
        series[k] = [m.get("%s_%d" % (k, i), 0.0) for i in range(N)]
    T, pf = m["T"], m["pf"]

    def F(vals):
        return fd.Food(np.array(vals, dtype=float), np.zeros(N), np.zeros(N), "kcals per person per day each month",
                       "effective kcals per person per day each month", "effective kcals per person per day each month")
    ir = types.SimpleNamespace(percent_people_fed=pf, include_fat=False, include_protein=False)
    for food, attr in ATTR.items():
        setattr(ir, attr, F(series[food]))
    ir.immediate_outdoor_crops_kcals_equivalent = F(series["oc_immediate"])
    ir.new_stored_outdoor_crops_kcals_equivalent = F(series["oc_new_stored"])
    ci = dict(MINIMUM_PERCENT_FED_BEFORE_NONHUMAN_CONSUMPTION_ALLOWED=T, NUTRITION=dict(KCALS_DAILY=KD), NMONTHS=N)
    old = fd.Food.conversions.__dict__.copy()
    bad = []
    try:
        fd.Food.conversions.kcals_daily = KD
        with np.errstate(all="ignore"):
            try:
                out = pm.Parameters().calculate_human_consumption_for_min_needs(ci, ir, None)
            except AssertionError as e:
                out = None
                bad.append("self-check fires on valid input: %s" % str(e)[:120])
    finally:
        fd.Food.conversions.__dict__.clear()
        fd.Food.conversions.__dict__.update(old)
    if out is not None:
        cap = min(T, pf) / 100 * KD
        if list(out.keys()) != FOODS:
            bad.append("keys/order changed")
        for mm in range(N):
            s = sum(float(out[f].kcals[mm]) for f in FOODS)
            if abs(s - cap) > 1e-6 * (1 + cap):
                bad.append("monthly sum %r != min(round1, threshold) %r" % (s, cap))
            for i, f in enumerate(FOODS):
                av = _avail(series, f, mm)
                v = float(out[f].kcals[mm])
                if v > av + 1e-9 * (1 + av):
                    bad.append("%s above what was eaten in round 1" % f)
                if v < -1e-12:
                    bad.append("%s negative" % f)
                if v > 1e-9 and any(float(out[g].kcals[mm]) < _avail(series, g, mm) - 1e-9 * (1 + _avail(series, g, mm)) for g in FOODS[:i]):
                    bad.append("priority order broken at %s" % f)
    return dict(reproduced=bool(bad), what="calculate_human_consumption_for_min_needs: " + "; ".join(bad[:3]),
                inputs=dict(series=series, T=T, percent_fed_round1=pf, KCALS_DAILY=KD),
                observed=None if out is None else {f: list(map(float, out[f].kcals)) for f in FOODS},
                key="minneeds/" + (bad[0].split(":")[0][:40] if bad else ""))


# ------------------------------------------------------------------ differential validation of the encoding
def validate_encoding(rep):
    """SYMX with concrete values vs un-instrumented code (translator validation, DESIGN 3.5)."""
    pm, fd, vr = _mods()
    rng = np.random.RandomState(12345)
    n = 0
    for _ in range(20):
        N = 4
        r1 = rng.rand(N) * 10
        r2 = rng.rand(N) * 12
        try:
            with contextlib.redirect_stdout(io.StringIO()):
                ref = pm.Parameters().get_second_round_kcals_with_redistributed_meat(r1.copy(), r2.copy(), None, None)
        except AssertionError:
            # the real code refuses this pair: not an encoding question (the symbolic groups decide whether it may refuse); skip the sample
            continue
        E = Engine()
        got = []

        def h(E):
            a1 = np.array([SymReal(z3.RealVal(repr(float(x)))) for x in r1], dtype=object)
            a2 = np.array([SymReal(z3.RealVal(repr(float(x)))) for x in r2], dtype=object)
            with patched(pm), contextlib.redirect_stdout(io.StringIO()):
                o = pm.Parameters().get_second_round_kcals_with_redistributed_meat(a1, a2, None, None)
            got.append(None if o is None else [float(x) for x in o])
        E.explore(h)
        if E.errors:
            rep.fail_inconclusive("encoding validation error: %s" % E.errors[0])
            return
        g = got[0]
        if (g is None) != (ref is None) or (g is not None and not np.allclose(g, ref, rtol=1e-9, atol=1e-9)):
            rep.fail_inconclusive("encoding validation: SYMX %r != real %r" % (g, ref))
            return
        n += 1
    rep.note_validation(n)


def main(tier, seed, only=None):
    rep = vlib.Report(PID, tier, seed)
    thorough = tier == "thorough"
    try:
        validate_encoding(rep)
    except Exception as e:   # noqa  the real code raised on a concrete validation sample: the symbolic groups still run and decide; without a violation the run is inconclusive
        rep.fail_inconclusive("concrete validation of the encoding could not run: %s: %s" % (type(e).__name__, str(e)[:200]))
    groups = []
    groups.append(("bump", "worker_bump", [dict(L=1, pre="within_demand"), dict(L=1, pre="any"), dict(L=2, pre="within_demand")] + ([dict(L=3, pre="within_demand")] if thorough else []), replay_bump,
                   ["Parameters.increase_biofuels_then_feed"],
                   "arrays of length 1..%d (the function is elementwise); every entry symbolic in [0,1e7]" % (3 if thorough else 2),
                   "biofuel, feed, increase, max_biofuel, max_feed, total_crops_available",
                   ["case within_demand: old biofuel <= demand and old feed <= demand; case any: no relation assumed (a value a rounding error above its demand reaches the call site), bound is max(old, demand)", "upper bounds carry +1e-8 billion kcal: the code's own +1e-9 regulariser overshoots by < 1e-9"]))
    ns = [2, 3, 4] + ([5, 6] if thorough else [])
    groups.append(("redistribute_meat", "worker_redis", [dict(N=n) for n in ns], replay_redis,
                   ["Parameters.get_second_round_kcals_with_redistributed_meat", "Parameters.fill_negatives_with_positives"],
                   "series length N in %s; all 2N monthly values symbolic in [0,1e7]" % ns, "round-1 and round-2 monthly meat series", ["series non-negative"]))
    nf = [2, 3, 4] + ([5] if thorough else [])
    groups.append(("fill_negatives", "worker_fill", [dict(N=n, sum=s) for n in nf for s in ("nonneg", "any")], replay_redis,
                   ["Parameters.fill_negatives_with_positives"], "array length N in %s; entries symbolic in [-1e7,1e7]" % nf, "the array", []))
    # the two Validator self-checks fork 3 ways per food and month: they are executed with <= 4 symbolic foods,
    # the main obligations run with all 9 foods symbolic and the self-checks stubbed out
    cases = [dict(N=1, foods=FOODS, validators=False), dict(N=2, foods=["fish", "outdoor_crops", "seaweed"], validators=False),
             dict(N=2, foods=["meat", "dairy", "stored_food"], validators=False),
             dict(N=1, foods=["fish", "meat", "outdoor_crops"]), dict(N=1, foods=["dairy", "greenhouse", "stored_food"]),
             dict(N=1, foods=["methane_scp", "cellulosic_sugar", "seaweed"])]
    if thorough:
        cases += [dict(N=2, foods=["fish", "meat", "greenhouse", "outdoor_crops", "seaweed"], validators=False), dict(N=3, foods=["fish", "outdoor_crops", "seaweed"], validators=False),
                  dict(N=2, foods=["fish", "seaweed"]), dict(N=1, foods=["fish", "meat", "dairy", "greenhouse"]), dict(N=1, foods=["outdoor_crops", "stored_food", "methane_scp", "seaweed"])]
    groups.append(("min_human_needs", "worker_minneeds", cases, replay_minneeds,
                   ["Parameters.calculate_human_consumption_for_min_needs", "Parameters.assert_consumption_within_limits",
                    "Validator.verify_minimum_food_consumption_sum_round2", "Validator.verify_food_usage_priorities_round2", "Food.__init__/__add__/all_less_than_or_equal_to"],
                   "N months in {1,2,3}; 9 foods (10 series: outdoor crops = immediate + new-stored) symbolic per case list; KCALS_DAILY=2100 concrete",
                   "per-food per-month kcal/person/day eaten in round 1, threshold T in [0,100], round-1 percent fed",
                   ["every month's round-1 total >= percent_fed/100*KCALS_DAILY (headline is the monthly minimum, C04)", "fat/protein not required (dispatcher exits otherwise)",
                    "sum equality asserted to 1e-9 relative"]))
    gl = [dict(name=n, fn=fn, cases=cs, replay=rpl, functions=fu, bounds=bo, symbolic=sy, assumptions=a,
               stubs=STUBS + ["food.isinstance accepts SymReal as float", "stdout silenced"],
               outside=["array lengths / month counts beyond the bound", "IEEE rounding (floats modelled as exact rationals)"])
          for n, fn, cs, rpl, fu, bo, sy, a in groups]
    vlib.run_groups(rep, "harness.C18_handoffs", gl, seed, only)
    return rep.finish()


def replay_file(path):
    import json
    rec = json.load(open(path))
    print(json.dumps(rec, indent=1)[:3000])
    return 0
