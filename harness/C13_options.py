"""C13 Scenario options mean what they say and are applied exactly once.

(a) CrossHair: one option family at a time receives a fully symbolic string value (<= 45 characters) and the real ScenarioRunner.set_depending_on_option runs on a
    real country row: accepted <=> the value is one of the documented (README) or dispatcher-listed spellings, the caller's dictionary is untouched; missing keys are
    rejected; symbolic species names / numbers for the overrides (the override block of animal_populations.main() is lifted from its AST).
(b) exactly-once discipline of every Scenarios setter and the 21 real species names: finite enumerations executed concretely (stated as such).
"""
import copy
import inspect
import io
import contextlib
import json
import os
import shutil
import tempfile
import time

import vlib
from xhair import runner as XR

PID = "C13"
MOD = "harness.C13_options"
HERE = os.path.dirname(os.path.dirname(os.path.abspath(__file__)))


def _xh_results(res, path, label):
    results = []
    for r in res:
        name = "%s: %s" % (label, r["func"])
        ob = {name: dict(unsat=0, sat=0, unknown=0)}
        o = ob[name]
        cex, errors = [], []
        if r["status"] == "confirmed":
            o["unsat"] += 1
        elif r["status"] == "counterexample":
            o["sat"] += 1
            cex.append(dict(obligation=name, model={}, info=r["call"], func=r["func"], path=path))
        else:
            o["unknown"] += 1
            errors.append("crosshair: %s (%s)" % (r["message"][:300], r["func"]))
        results.append(dict(case=r["func"], wall_s=r["wall_s"], stats=dict(paths=1, completed=1, queries=1, solver_s=r["wall_s"], branches=0, unsat=o["unsat"], sat=o["sat"], unknown=o["unknown"],
                                                                           pruned_by_code_assertions=0, pruned_other=0), obligations=ob, cex=cex, errors=errors, canary_bad=0))
    return results


def _keyer(cx):
    f = cx["func"]
    call = cx["info"] or ""
    if f in ("option_fat", "option_protein") and "'required'" in call:
        return "option/%s=required exits the program" % f.split("_", 1)[1]
    if f == "option_ratio_stocks_untouched" and "no_stored_food_between_years" in call:
        return "option/ratio_stocks_untouched documented spelling rejected"
    return "option/%s" % f


def replay_xh(case, cx):
    ok, detail = XR.replay_call(cx["path"], cx["info"], repo=vlib.REPO)
    return dict(reproduced=ok, what="%s -> %s" % (cx["info"], detail), inputs=dict(call=cx["info"]), key=_keyer(cx))


# ----------------------------------------------------------------------------------------- (b) enumerations, concrete
def worker_setters(case, seed):
    """every Scenarios setter: refuses to run when its family flag is already set (before touching the constants) and flips exactly its own flag otherwise."""
    import pandas as pd
    import src.scenarios.scenarios as sc
    from src.scenarios.run_scenario import ScenarioRunner
    from symx.engine import Engine
    import xhair.c13_options as H
    E = Engine(seed=seed)
    row = H._ROW

    def h(E):
        with contextlib.redirect_stdout(io.StringIO()):
            consts, tconsts, loader = ScenarioRunner().set_depending_on_option(dict(H.BASE), country_data=row.copy())
        flags = [k for k in vars(sc.Scenarios()) if k.endswith("_SET")]
        n = 0
        for name, fn in inspect.getmembers(sc.Scenarios, predicate=inspect.isfunction):
            src = inspect.getsource(fn)
            mine = [f for f in flags if ("assert not self.%s" % f) in src]
            if len(mine) != 1:
                continue
            flag = mine[0]
            params = list(inspect.signature(fn).parameters)[1:]

            def args(c, t):
                out = []
                for p in params:
                    out.append(c if p == "constants_for_params" else (t if p == "time_consts_for_params" else row.copy()))
                return out
            # 1. second application of the family is refused before any mutation
            s = sc.Scenarios()
            s.IS_GLOBAL_ANALYSIS = False
            setattr(s, flag, True)
            c, t = copy.deepcopy(consts), copy.deepcopy(tconsts)
            c0 = copy.deepcopy(c)
            refused = False
            try:
                with contextlib.redirect_stdout(io.StringIO()):
                    fn(s, *args(c, t))
            except AssertionError:
                refused = True
            except Exception:
                refused = False
            same = set(c) == set(c0) and all(H._eq(c[k], c0[k]) for k in c0)
            E.check("a setter refuses to run when its option family is already set, before touching the constants", bool(refused and same), info="%s (%s)" % (name, flag))
            # 2. first application flips exactly its own flag
            s = sc.Scenarios()
            s.IS_GLOBAL_ANALYSIS = False
            c, t = copy.deepcopy(consts), copy.deepcopy(tconsts)
            try:
                with contextlib.redirect_stdout(io.StringIO()):
                    fn(s, *args(c, t))
                flipped = [f for f in flags if getattr(s, f)]
                # the two init_* setters legitimately also run the generic initialisation
                E.check("a setter marks exactly its own option family as set", flag in flipped and set(flipped) <= {flag, "GENERIC_INITIALIZED_SET"}, info="%s sets %s" % (name, flipped))
            except (AssertionError, KeyError, TypeError, SystemExit):
                pass      # setters with further prerequisites (global scale data etc.) are exercised through the dispatcher only
            n += 1
        E.check("found the setters", n >= 40, info="only %d setters recognised" % n)
        # check_all_set
        s = sc.Scenarios()
        for f in flags:
            setattr(s, f, True)
        ok_all = True
        try:
            s.check_all_set()
        except AssertionError:
            ok_all = False
        E.check("check_all_set passes when every family is set", ok_all)
        for f in flags:
            s = sc.Scenarios()
            for g in flags:
                setattr(s, g, g != f)
            try:
                s.check_all_set()
                E.check("check_all_set refuses when a family is missing", False, info="missing %s not noticed" % f)
            except AssertionError:
                E.check("check_all_set refuses when a family is missing", True)
    E.explore(h)
    return E.summary()


def worker_species(case, seed):
    """the 21 head-count columns of the shipped table: '<species>_head' override reaches exactly that column; `global` scale; README spellings"""
    from symx.engine import Engine
    import src.food_system.animal_populations as ap
    import xhair.c13_options as H
    E = Engine(seed=seed)

    def h(E):
        df = ap.AnimalDataReader.read_animal_population_data("FAOSTAT_head_and_slaughter.csv")
        heads = [c for c in df.columns if c.endswith("_head")]
        E.check("the table has the 21 species head-count columns", len(heads) == 21, info=str(len(heads)))
        for col in heads:
            opt = dict(H.BASE)
            opt[col] = 12345
            with contextlib.redirect_stdout(io.StringIO()):
                status, c = H._dispatch(opt)
            t = H._Table()
            if status == "accepted":
                H._APPLY(c, t, "ARG")
            E.check("head-count override of every real species reaches exactly its own column", status == "accepted" and t.writes == [("ARG", col, 12345)], info="%s -> %s" % (col, t.writes))
        # README: every spelling listed under "Allowed Values" for a family is one the harness treats as documented
        readme = open(os.path.join(vlib.REPO, "scenarios", "README.md")).read()
        for fam in H.DOC:
            for v in H.DOC[fam] + H.GLOBAL_ONLY.get(fam, []):
                E.check("documented spellings are taken from scenarios/README.md", ("`%s`" % v) in readme, info="%s=%s" % (fam, v))
    E.explore(h)
    return E.summary()


def replay_enum(case, cx):
    info = cx.get("info") or ""
    key = "enum/" + cx["obligation"][:50]
    if "head-count override" in cx["obligation"]:
        key = "override/head-count column mangled"
    return dict(reproduced=True, what="%s: %s" % (cx["obligation"], info), key=key)


def main(tier, seed, only=None):
    rep = vlib.Report(PID, tier, seed)
    thorough = tier == "thorough"
    tmp = tempfile.mkdtemp(prefix="vp_c13_")
    try:
        import xhair.c13_options as H
        path = os.path.join(tmp, "c13_generated.py")
        open(path, "w").write(H.wrapper_source(45))
        env = dict(VERIF_REPO=vlib.REPO)
        t = 150 if not thorough else 600
        res1 = XR.run(path, timeout=t, repo=vlib.REPO, extra_env=env)
        res2 = XR.run(os.path.join(HERE, "xhair", "c13_options.py"), timeout=t, repo=vlib.REPO, extra_env=env)
        rep.add_group("dispatcher_accepts_exactly_the_documented_values", _xh_results(res1, path, "accepted <=> documented value; caller's dictionary untouched"),
                      functions=["ScenarioRunner.set_depending_on_option", "alter_scenario_if_known_to_fail", "Scenarios.* setters reached by the dispatcher"],
                      bounds="16 option families, one symbolic at a time; value = any string of <= 45 characters; the other families from a shipped preset; country row ARG",
                      symbolic="the option value (str)", assumptions=["documented values = 'Allowed Values' of scenarios/README.md (checked textually), plus the spellings the dispatcher itself lists"],
                      stubs=["none"], outside=["two families symbolic at once", "`global` scale (needs country_data=None)"], replay=replay_xh)
        rep.add_group("missing_keys_rewrites_and_overrides", _xh_results(res2, os.path.join(HERE, "xhair", "c13_options.py"), "rule holds"),
                      functions=["ScenarioRunner.set_depending_on_option (missing key, numeric overrides, '<species>_head' keys)", "alter_scenario_if_known_to_fail",
                                 "animal_populations.main: the override block, lifted from its AST"],
                      bounds="index of the removed key symbolic (16 keys); species name = any string of 1-7 characters without '_'; override value symbolic in [0,1]; shut-off / scenario / iso3 strings symbolic for the rewrite table",
                      symbolic="strings and numbers as listed", assumptions=[], stubs=["df_animal_stock_info replaced by a recorder of .loc writes"], outside=["species names longer than 7 characters symbolically (the 21 real ones are enumerated)"], replay=replay_xh)
    finally:
        shutil.rmtree(tmp, ignore_errors=True)
    groups = [dict(name="exactly_once_setters", fn="worker_setters", cases=[dict(country="ARG")], replay=replay_enum, functions=["every Scenarios.set_* / get_*_scenario / include_* / cull_* method", "Scenarios.check_all_set"],
                   bounds="all setters with an assert-not-set guard (enumerated concretely, not symbolic)", symbolic="nothing (finite enumeration)", assumptions=[], stubs=[], outside=[]),
              dict(name="real_species_and_readme", fn="worker_species", cases=[dict()], replay=replay_enum, functions=["set_depending_on_option", "animal_populations.main override block"],
                   bounds="the 21 head-count columns of FAOSTAT_head_and_slaughter.csv (enumerated concretely)", symbolic="nothing (finite enumeration)", assumptions=[], stubs=[], outside=[])]
    from harness import history as H
    groups.append(dict(H.GROUP, cases=H.cases(thorough, seed)))
    from harness import rowwiring as RW
    groups.append(dict(RW.GROUP, cases=RW.cases()))
    vlib.run_groups(rep, MOD, groups, seed, only)
    return rep.finish()


def replay_file(path):
    rec = json.load(open(path))
    print(json.dumps(rec, indent=1)[:3000])
    return 0
