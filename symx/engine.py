"""SYMX: a small re-execution symbolic executor over z3 reals.

The *real* repository functions are called with SymReal objects in place of floats.
Arithmetic builds z3 Real terms; comparisons build SymBool; SymBool.__bool__ is the only
place where execution forks.  Forking is by re-execution with a decision tape (DART /
CrossHair discipline): at a fresh branch the solver is asked whether pc&c and pc&~c are
satisfiable; if both, the alternative tape is queued.  Conditions implied by the path
condition do not fork.

Python floats are modelled as exact rationals (see DESIGN.md 3.1).
"""
import time
import traceback
from fractions import Fraction
import numbers

import z3
import numpy as _np


class Concretize(Exception):
    """Raised when code forces a SymReal through float()/int()/index()."""


class Inconclusive(Exception):
    """Solver returned unknown / budget exceeded: never reported as success."""


class PathPruned(BaseException):
    """Raised by harness code to abandon a path (counted)."""


QUERY_TIMEOUT_MS = 60000
_ENG = None  # current engine


def eng():
    return _ENG


def _q(o):
    """python number -> exact z3 rational"""
    if isinstance(o, bool):
        return z3.RealVal(int(o))
    if isinstance(o, int):
        return z3.RealVal(o)
    if isinstance(o, Fraction):
        return z3.RatVal(o.numerator, o.denominator)
    if isinstance(o, float):
        if o != o or o in (float("inf"), float("-inf")):
            raise Concretize("non-finite float %r mixed with symbolic value" % (o,))
        f = Fraction(o)
        return z3.RatVal(f.numerator, f.denominator)
    if isinstance(o, numbers.Integral):
        return z3.RealVal(int(o))
    if isinstance(o, numbers.Real):
        f = Fraction(float(o))
        return z3.RatVal(f.numerator, f.denominator)
    return None


def _lift(o):
    if isinstance(o, SymReal):
        return o.z
    r = _q(o)
    if r is None:
        return NotImplemented
    return r


def _simp(t):
    return z3.simplify(t, som=False)


class SymBool:
    __slots__ = ("b",)

    def __init__(self, b):
        self.b = b

    def __bool__(self):
        return _ENG.decide(self.b)

    @staticmethod
    def _b(o):
        if isinstance(o, SymBool):
            return o.b
        return z3.BoolVal(bool(o))

    def __and__(self, o):
        return SymBool(z3.And(self.b, SymBool._b(o)))

    __rand__ = __and__

    def __or__(self, o):
        return SymBool(z3.Or(self.b, SymBool._b(o)))

    __ror__ = __or__

    def __invert__(self):
        return SymBool(z3.Not(self.b))

    # numpy-ish conveniences: `(a > b).all()` on scalars
    def all(self):
        return bool(self)

    def any(self):
        return bool(self)

    def __repr__(self):
        return "SymBool(%s)" % (self.b,)


class SymReal:
    __slots__ = ("z",)
    __array_priority__ = 1000

    def __init__(self, z):
        self.z = z

    def _bin(self, o, f, r=False):
        if isinstance(o, _np.ndarray):
            out = _np.empty(o.shape, dtype=object)
            for i, e in enumerate(o.flat):
                out.flat[i] = self._bin(e, f, r)
            return out
        l = _lift(o)
        if l is NotImplemented:
            return NotImplemented
        return SymReal(_simp(f(l, self.z) if r else f(self.z, l)))

    def __add__(s, o):
        return s._bin(o, lambda a, b: a + b)

    def __radd__(s, o):
        return s._bin(o, lambda a, b: a + b, True)

    def __sub__(s, o):
        return s._bin(o, lambda a, b: a - b)

    def __rsub__(s, o):
        return s._bin(o, lambda a, b: a - b, True)

    def __mul__(s, o):
        return s._bin(o, lambda a, b: a * b)

    def __rmul__(s, o):
        return s._bin(o, lambda a, b: a * b, True)

    def _div(s, o, r=False):
        if isinstance(o, _np.ndarray):
            out = _np.empty(o.shape, dtype=object)
            for i, e in enumerate(o.flat):
                out.flat[i] = s._div(e, r)
            return out
        l = _lift(o)
        if l is NotImplemented:
            return NotImplemented
        num, den = (l, s.z) if r else (s.z, l)
        den = _simp(den)
        if z3.is_rational_value(den):
            if den.numerator_as_long() == 0:
                if _ENG.div0_mode == "numpy":
                    _ENG.div0_events.append(str(num)[:80])
                    return SymReal(_ENG.fresh_real("div0"))
                raise ZeroDivisionError("division by zero (symbolic execution)")
        else:
            # division by a symbolic term: fork on "denominator is zero"
            if _ENG.decide(den == 0):
                if _ENG.div0_mode == "numpy":
                    # float64 arrays give inf/nan (with a warning) instead of raising: the result is an
                    # unconstrained fresh value (over-approximation) and the event is recorded for the harness
                    _ENG.div0_events.append(str(num)[:80])
                    return SymReal(_ENG.fresh_real("div0"))
                raise ZeroDivisionError("division by a value that can be zero on this path")
        return SymReal(_simp(num / den))

    def __truediv__(s, o):
        return s._div(o)

    def __rtruediv__(s, o):
        return s._div(o, True)

    def _floordiv(s, o, r=False):
        """exact model of python's floor division: fresh integer k with k <= x/y < k+1"""
        l = _lift(o)
        if l is NotImplemented:
            return NotImplemented
        q = s._div(o, r)
        if not isinstance(q, SymReal):
            return q
        qz = _simp(q.z)
        if z3.is_rational_value(qz):
            fr = Fraction(qz.numerator_as_long(), qz.denominator_as_long())
            return SymReal(_q(fr.numerator // fr.denominator))
        k = _ENG.fresh_int("floor_k")
        kr = z3.ToReal(k)
        _ENG.solver.add(kr <= qz, qz < kr + 1)
        _ENG.round_events.append((str(qz)[:80], "floordiv"))
        return SymReal(kr)

    def __floordiv__(s, o):
        return s._floordiv(o)

    def __rfloordiv__(s, o):
        return s._floordiv(o, True)

    def __mod__(s, o):
        fl = s._floordiv(o)
        if fl is NotImplemented:
            return NotImplemented
        return s - fl * o

    def __neg__(s):
        return SymReal(_simp(-s.z))

    def __pos__(s):
        return s

    def __pow__(s, e):
        if isinstance(e, SymReal):
            ez = _simp(e.z)
            if z3.is_rational_value(ez):
                e = Fraction(ez.numerator_as_long(), ez.denominator_as_long())
                e = int(e) if e.denominator == 1 else float(e)
            else:
                raise Concretize("symbolic exponent")
        if isinstance(e, (int,)) and not isinstance(e, bool) and e > 4 and _ENG.int_pow_uf:
            return _ENG.upow_int(s, e)
        if isinstance(e, (int,)) and not isinstance(e, bool) and 0 <= e <= 4:
            r = SymReal(z3.RealVal(1))
            for _ in range(e):
                r = r * s
            return r
        if isinstance(e, float) and float(e).is_integer() and 0 <= e <= 4:
            return s.__pow__(int(e))
        if isinstance(e, float) and 0 < e < 1:
            return _ENG.upow(s, e)
        raise Concretize("pow %r" % (e,))

    def __abs__(s):
        return -s if (s < 0) else s

    def _cmp(s, o, f):
        if isinstance(o, _np.ndarray):
            # comparison against an array (reflected from ndarray.__gt__ etc.): decided elementwise right away so that the
            # result is a plain boolean mask usable for indexing
            out = _np.empty(o.shape, dtype=bool)
            for i, e in enumerate(o.flat):
                out.flat[i] = bool(s._cmp(e, f))
            return out
        l = _lift(o)
        if l is NotImplemented:
            return NotImplemented
        return SymBool(f(s.z, l))

    def __lt__(s, o):
        return s._cmp(o, lambda a, b: a < b)

    def __le__(s, o):
        return s._cmp(o, lambda a, b: a <= b)

    def __gt__(s, o):
        return s._cmp(o, lambda a, b: a > b)

    def __ge__(s, o):
        return s._cmp(o, lambda a, b: a >= b)

    def __eq__(s, o):
        return s._cmp(o, lambda a, b: a == b)

    def __ne__(s, o):
        return s._cmp(o, lambda a, b: a != b)

    __hash__ = None

    def __bool__(s):
        return _ENG.decide(s.z != 0)

    def __float__(s):
        zs = _simp(s.z)
        if z3.is_rational_value(zs):
            return float(Fraction(zs.numerator_as_long(), zs.denominator_as_long()))
        raise Concretize("float()")

    def __int__(s):
        zs = _simp(s.z)
        if z3.is_rational_value(zs):
            return int(Fraction(zs.numerator_as_long(), zs.denominator_as_long()))
        raise Concretize("int()")

    def __index__(s):
        raise Concretize("index()")

    def __round__(s, n=None):
        """exact model of round(): fresh integer k with |x*10^n - k| <= 1/2 (ties left open)."""
        zs = _simp(s.z)
        if z3.is_rational_value(zs):
            fr = Fraction(zs.numerator_as_long(), zs.denominator_as_long())
            r = round(fr, n) if n is not None else round(fr)
            return SymReal(_q(Fraction(r)))
        # round is a function: the same argument term rounds to the same integer wherever it is rounded on this path (ties stay open, but consistently)
        key = (zs.get_id(), n)
        memo = _ENG.__dict__.setdefault("round_memo", {})
        if key in memo:
            return SymReal(memo[key][1])
        _ENG.round_events.append((str(zs)[:80], n))
        k = _ENG.fresh_int("round_k")
        sc = z3.RatVal(10 ** (n or 0), 1) if (n or 0) >= 0 else z3.RatVal(1, 10 ** (-n))
        _ENG.solver.add(zs * sc - z3.ToReal(k) <= z3.RatVal(1, 2), zs * sc - z3.ToReal(k) >= z3.RatVal(-1, 2))
        out = _simp(z3.ToReal(k) / sc)
        memo[key] = (zs, out)      # zs kept alive so that its id is not reused
        return SymReal(out)

    def trunc_toward_zero(s):
        """what storing into an int64 numpy array does to a non-integer value"""
        zs = _simp(s.z)
        _ENG.trunc_events.append(str(zs)[:80])
        k = _ENG.fresh_int("trunc_k")
        kr = z3.ToReal(k)
        _ENG.solver.add(z3.Or(z3.And(zs >= 0, kr <= zs, zs < kr + 1), z3.And(zs < 0, kr >= zs, zs > kr - 1)))
        return SymReal(kr)

    def __repr__(self):
        return "SymReal(%s)" % (str(self.z)[:60],)

    def is_concrete(self):
        return z3.is_rational_value(_simp(self.z))


def as_fraction(zval):
    """z3 numeral -> Fraction"""
    if z3.is_rational_value(zval):
        return Fraction(zval.numerator_as_long(), zval.denominator_as_long())
    if z3.is_int_value(zval):
        return Fraction(zval.as_long())
    if z3.is_algebraic_value(zval):
        a = zval.approx(30)
        return Fraction(a.numerator_as_long(), a.denominator_as_long())
    raise ValueError("not a numeral: %s" % zval)


class Engine:
    """One Engine per exploration (case)."""

    def __init__(self, max_paths=20000, query_timeout_ms=None, seed=0):
        self.max_paths = max_paths
        self.query_timeout_ms = query_timeout_ms or QUERY_TIMEOUT_MS
        self.seed = seed
        self.stats = dict(paths=0, completed=0, pruned_by_code_assertions=0, pruned_other=0,
                          queries=0, solver_s=0.0, branches=0, unsat=0, sat=0, unknown=0, forks=0)
        self.obligations = {}   # name -> dict(unsat=, sat=, unknown=)
        self.cex = []           # list of dict(obligation, model, tape)
        self.errors = []
        self.canary_bad = 0
        self.symbols = {}
        self._fresh = 0
        self.upow_terms = {}
        self.solver = None
        self.prune_on = (AssertionError,)
        self.int_pow_uf = False     # x**n (n > 4) as an uninterpreted function (monotone, positive) when True
        self.div0_mode = "raise"    # or "numpy"
        self.div0_events = []
        self.round_events = []
        self.trunc_events = []

    # ---- symbols ----
    def real(self, name):
        z = z3.Real(name)
        self.symbols[name] = z
        return SymReal(z)

    def reals(self, prefix, n):
        return [self.real("%s_%d" % (prefix, i)) for i in range(n)]

    def fresh_int(self, prefix):
        self._fresh += 1
        return z3.Int("%s!%d" % (prefix, self._fresh))

    def fresh_real(self, prefix):
        self._fresh += 1
        return z3.Real("%s!%d" % (prefix, self._fresh))

    def upow(self, s, e):
        """x**e for 0<e<1 as an uninterpreted function with sound axioms (DESIGN 3.1)."""
        f = z3.Function("pow_%s" % repr(e).replace(".", "_").replace("-", "m"), z3.RealSort(), z3.RealSort())
        x = _simp(s.z)
        y = f(x)
        ax = [z3.Implies(z3.And(x >= 0, x <= 1), z3.And(y >= x, y <= 1)),
              z3.Implies(x >= 1, z3.And(y >= 1, y <= x)),
              z3.Implies(x == 0, y == 0), z3.Implies(x == 1, y == 1), z3.Implies(x > 0, y > 0)]
        # monotone w.r.t. terms already created on this path
        for (e2, x2, y2) in self.upow_path:
            if e2 == e:
                ax.append(z3.Implies(x <= x2, y <= y2))
                ax.append(z3.Implies(x >= x2, y >= y2))
        self.upow_path.append((e, x, y))
        self.solver.add(ax)
        return SymReal(y)

    def upow_int(self, s, n):
        f = z3.Function("ipow_%d" % n, z3.RealSort(), z3.RealSort())
        x = _simp(s.z)
        y = f(x)
        self.solver.add(z3.Implies(x >= 0, y >= 0), z3.Implies(x >= 1, y >= 1), z3.Implies(x == 1, y == 1), z3.Implies(x == 0, y == 0))
        return SymReal(y)

    # ---- solver plumbing ----
    def _new_solver(self):
        s = z3.Solver()
        s.set("timeout", self.query_timeout_ms)
        s.set("random_seed", 0)     # VERIF_SEED never changes solver behaviour (timing would become seed dependent); it selects instances only
        return s

    def sat(self, extra):
        self.solver.push()
        self.solver.add(extra)
        t = time.time()
        r = self.solver.check()
        self.stats["solver_s"] += time.time() - t
        self.stats["queries"] += 1
        m = self.solver.model() if r == z3.sat else None
        self.solver.pop()
        self.stats[str(r)] += 1
        return r, m

    def decide(self, cond):
        cond = _simp(cond)
        if z3.is_true(cond):
            return True
        if z3.is_false(cond):
            return False
        self.stats["branches"] += 1
        # the same condition decided earlier on this path is implied by the path condition: no query, no tape position
        cid = cond.get_id()
        if cid in self.memo:
            return self.memo[cid]
        if z3.is_not(cond) and cond.arg(0).get_id() in self.memo:
            return not self.memo[cond.arg(0).get_id()]
        if self.pos < len(self.tape):
            b = self.tape[self.pos]
        else:
            rt, _ = self.sat(cond)
            rf, _ = self.sat(z3.Not(cond))
            if rt == z3.unknown or rf == z3.unknown:
                raise Inconclusive("solver returned unknown at a branch: %s" % str(cond)[:200])
            if rt == z3.sat and rf == z3.sat:
                self.todo.append(self.tape[:self.pos] + [False])
                self.stats["forks"] += 1
                b = True
            elif rt == z3.sat:
                b = True
            elif rf == z3.sat:
                b = False
            else:
                raise PathPruned("path condition became infeasible")
            self.tape.append(b)
        self.pos += 1
        self.solver.add(cond if b else z3.Not(cond))
        self.memo[cid] = b
        self._keep.append(cond)
        return b

    def assume(self, c):
        if isinstance(c, SymBool):
            self.solver.add(c.b)
        elif z3.is_expr(c):
            self.solver.add(c)
        elif not c:
            self.solver.add(z3.BoolVal(False))

    def model_dict(self, m):
        out = {}
        for name, z in self.symbols.items():
            v = m.eval(z, model_completion=True)
            try:
                fr = as_fraction(v)
                out[name] = "%d/%d" % (fr.numerator, fr.denominator)
            except Exception:
                out[name] = str(v)
        return out

    def check(self, name, c, info=None):
        """obligation: c must hold on this path for every value (unsat of pc & ~c)."""
        ob = self.obligations.setdefault(name, dict(unsat=0, sat=0, unknown=0, trivially_true=0))
        if not isinstance(c, SymBool):
            if z3.is_expr(c):
                c = SymBool(c)
            else:
                if c:
                    ob["trivially_true"] += 1
                    ob["unsat"] += 1
                else:
                    # concretely false on a feasible path: produce any model of the path
                    r, m = self.sat(z3.BoolVal(True))
                    ob["sat"] += 1
                    self.cex.append(dict(obligation=name, model=self.model_dict(m) if m is not None else {},
                                         tape=list(self.tape[:self.pos]), info=info))
                return
        r, m = self.sat(z3.Not(c.b))
        if r == z3.unsat:
            ob["unsat"] += 1
        elif r == z3.sat:
            ob["sat"] += 1
            if sum(1 for x in self.cex if x["obligation"] == name) < 3:
                self.cex.append(dict(obligation=name, model=self.model_dict(m), tape=list(self.tape[:self.pos]), info=info))
        else:
            ob["unknown"] += 1

    def canary(self):
        """reachability witness: pc must be satisfiable here (guards against vacuity)."""
        r, _ = self.sat(z3.BoolVal(True))
        if r != z3.sat:
            self.canary_bad += 1

    def fail(self, name, info=None):
        """harness-detected failure on the current path (e.g. code returned None)."""
        self.check(name, False, info=info)

    # ---- exploration ----
    def explore(self, fn):
        global _ENG
        prev = _ENG
        _ENG = self
        self.todo = [[]]
        try:
            while self.todo:
                if self.stats["paths"] >= self.max_paths:
                    self.errors.append("path budget %d exhausted with %d tapes queued" % (self.max_paths, len(self.todo)))
                    break
                self.tape = self.todo.pop()
                self.pos = 0
                self.solver = self._new_solver()
                self.upow_path = []
                self.memo = {}
                self._keep = []   # keeps decided ASTs alive so that their ids are not reused
                self.div0_events = []
                self.round_events = []
                self.round_memo = {}
                self.trunc_events = []
                self.stats["paths"] += 1
                try:
                    fn(self)
                    self.canary()
                    self.stats["completed"] += 1
                except PathPruned:
                    self.stats["pruned_other"] += 1
                except Inconclusive as e:
                    self.errors.append("inconclusive: %s" % e)
                except self.prune_on:
                    self.stats["pruned_by_code_assertions"] += 1
                except ZeroDivisionError as e:
                    self.check("no_division_by_zero", False, info=str(e))
                except Concretize as e:
                    self.errors.append("concretize trap: %s\n%s" % (e, traceback.format_exc(limit=6)))
                except Exception as e:
                    self.errors.append("harness exception %s: %s\n%s" % (type(e).__name__, e, traceback.format_exc(limit=8)))
        finally:
            _ENG = prev
        return self

    def summary(self):
        return dict(stats=dict(self.stats, solver_s=round(self.stats["solver_s"], 3)), obligations=self.obligations,
                    cex=self.cex, errors=self.errors[:10], n_errors=len(self.errors), canary_bad=self.canary_bad)


def sb(x):
    """bool / numpy.bool_ / SymBool -> SymBool"""
    if isinstance(x, SymBool):
        return x
    return SymBool(z3.BoolVal(bool(x)))


def implies(a, b):
    return SymBool(z3.Implies(sb(a).b, sb(b).b))


def conj(xs):
    xs = [sb(x).b for x in xs]
    return SymBool(z3.And(xs) if xs else z3.BoolVal(True))


def zsum(xs):
    t = 0
    for x in xs:
        t = t + x
    return t


def close(a, b, rel=1e-9, abs_=1e-9):
    """|a-b| <= rel*|b| + abs as a SymBool (for identities that pass through concrete float sub-computations)."""
    d = a - b
    mag = b if isinstance(b, SymReal) else (a if isinstance(a, SymReal) else None)
    if isinstance(d, SymReal):
        bz = _lift(b)
        tol = z3.If(bz >= 0, bz, -bz) * _q(rel) + _q(abs_)
        return SymBool(z3.And(d.z <= tol, -d.z <= tol))
    return abs(d) <= rel * abs(b) + abs_
