"""NpProxy: assigned to the module-global `np` of a module under test.  Delegates to real numpy
except for the few entry points that cannot carry SymReal objects (DESIGN.md 3.1).  Every
overridden entry is listed in STUBS and reported in the evidence."""
import builtins
import numpy as _np

from .engine import SymReal, SymBool, Concretize, eng

STUBS = ["np.zeros/ones/zeros_like/full (object dtype when symbolic execution is active)", "np.linspace", "np.isnan", "np.isfinite",
         "np.round/around", "np.abs/absolute", "np.clip", "np.array(dtype=float) keeps object dtype for symbolic entries",
         "np.array([ints]) -> IntArray that truncates symbolic stores like int64", "np.where/np.all/np.any/np.isclose on symbolic conditions",
         "np.minimum/maximum", "np.cumsum", "np.nan_to_num", "np.divide", "np.max/min/sum on object arrays"]


def _is_sym(x):
    return isinstance(x, (SymReal, SymBool))


def _has_sym(x):
    if _is_sym(x):
        return True
    if isinstance(x, _np.ndarray):
        return x.dtype == object and builtins.any(_is_sym(e) for e in x.flat)
    if isinstance(x, (list, tuple)):
        return builtins.any(_has_sym(e) for e in x)
    return False


def _obj(x):
    if isinstance(x, _np.ndarray) and x.dtype == object:
        return x
    a = _np.empty(_np.shape(x), dtype=object)
    if a.shape == ():
        a[()] = x
        return a
    a[...] = _np.asarray(x, dtype=object) if not isinstance(x, _np.ndarray) else x.astype(object)
    return a


class IntArray(_np.ndarray):
    """object array that behaves like an int64 array on stores: a non-integer value is truncated
    toward zero (that is what numpy does silently).  Truncating a symbolic value is reported to the
    engine through `on_truncate` so that a harness can make it the subject (C09)."""
    on_truncate = None

    def __setitem__(self, k, v):
        if isinstance(v, SymReal):
            if IntArray.on_truncate is not None:
                IntArray.on_truncate(v)
            v = v.trunc_toward_zero()
        elif isinstance(v, _np.ndarray) and v.dtype == object:
            v = _np.array([e.trunc_toward_zero() if isinstance(e, SymReal) else int(e) for e in v.flat], dtype=object).reshape(v.shape)
            if IntArray.on_truncate is not None:
                IntArray.on_truncate(v)
        elif isinstance(v, (float, _np.floating)):
            v = int(v)
        _np.ndarray.__setitem__(self, k, v)


class SymArray(_np.ndarray):
    """object array whose comparisons fork immediately and yield a plain boolean array, so that boolean-mask
    indexing (`a[a > cap] = cap`) works on symbolic entries."""

    def _cmp(self, other, op):
        A, B = _np.broadcast_arrays(_np.asarray(self, dtype=object), _obj(other))
        out = _np.empty(A.shape, dtype=bool)
        for i, (x, y) in enumerate(zip(A.flat, B.flat)):
            out.flat[i] = bool(op(x, y))
        return out

    def __gt__(self, o):
        return self._cmp(o, lambda a, b: a > b)

    def __ge__(self, o):
        return self._cmp(o, lambda a, b: a >= b)

    def __lt__(self, o):
        return self._cmp(o, lambda a, b: a < b)

    def __le__(self, o):
        return self._cmp(o, lambda a, b: a <= b)


def _map(f, x):
    a = _obj(x)
    out = _np.empty(a.shape, dtype=object)
    for i, e in enumerate(a.flat):
        out.flat[i] = f(e)
    return out


class NpProxy:
    def __init__(self, active=lambda: eng() is not None, symarray=False):
        self._active = active
        self._symarray = symarray

    def __getattr__(self, n):
        return getattr(_np, n)

    # constructors
    def zeros(self, shape, dtype=None, **k):
        if self._active() and dtype in (None, float):
            a = _np.empty(shape, dtype=object)
            a[...] = 0.0
            return a
        return _np.zeros(shape, dtype=dtype, **k) if dtype is not None else _np.zeros(shape, **k)

    def ones(self, shape, dtype=None, **k):
        if self._active() and dtype in (None, float):
            a = _np.empty(shape, dtype=object)
            a[...] = 1.0
            return a
        return _np.ones(shape, dtype=dtype, **k) if dtype is not None else _np.ones(shape, **k)

    def zeros_like(self, x, *a, **k):
        if _has_sym(x):
            return self.zeros(_np.shape(x))
        return _np.zeros_like(x, *a, **k)

    def full(self, shape, v, *a, **k):
        if _is_sym(v) or self._active():
            r = _np.empty(shape, dtype=object)
            r[...] = v
            return r
        return _np.full(shape, v, *a, **k)

    def array(self, x, dtype=None, **k):
        if self._active():
            if dtype is None and isinstance(x, list) and len(x) > 0 and builtins.all(type(e) is int for e in x):
                a = _np.array(x, dtype=object).view(IntArray)
                return a
            if _has_sym(x):
                if isinstance(x, _np.ndarray):
                    return x.copy()
                if isinstance(x, SymReal):
                    return x            # np.array(scalar): a 0-d array behaves like the scalar in the arithmetic that follows
                return _np.array(list(x), dtype=object)
        return _np.array(x, dtype=dtype, **k) if dtype is not None else _np.array(x, **k)

    def asarray(self, x, dtype=None, **k):
        if _has_sym(x):
            return x if isinstance(x, _np.ndarray) else _np.array(list(x), dtype=object)
        return _np.asarray(x, dtype=dtype, **k) if dtype is not None else _np.asarray(x, **k)

    def linspace(self, a, b, n=50, **k):
        if _is_sym(a) or _is_sym(b):
            n = int(n)
            return _np.array([a + (b - a) * i / (n - 1) if n > 1 else a for i in range(n)], dtype=object)
        return _np.linspace(a, b, n, **k) if "num" not in k else _np.linspace(a, b, **k)

    def append(self, a, b, *r, **k):
        if _has_sym(a) or _has_sym(b) or (self._symarray and self._active() and not r and not k):
            out = _np.array(list(_obj(a).flat) + list(_obj(b).flat), dtype=object)
            return out.view(SymArray) if self._symarray else out
        return _np.append(a, b, *r, **k)

    def concatenate(self, seq, *r, **k):
        if builtins.any(_has_sym(s) for s in seq):
            out = []
            for s in seq:
                out.extend(list(_obj(s).flat))
            return _np.array(out, dtype=object)
        return _np.concatenate(seq, *r, **k)

    # predicates
    def isnan(self, x):
        if _has_sym(x) or (isinstance(x, _np.ndarray) and x.dtype == object):
            if _is_sym(x):
                return False
            return _np.array([False if _is_sym(e) else bool(_np.isnan(e)) for e in _obj(x).flat]).reshape(_np.shape(x))
        return _np.isnan(x)

    def isfinite(self, x):
        if _has_sym(x):
            if _is_sym(x):
                return True
            return _np.array([True if _is_sym(e) else bool(_np.isfinite(e)) for e in _obj(x).flat]).reshape(_np.shape(x))
        return _np.isfinite(x)

    def isclose(self, a, b, rtol=1e-05, atol=1e-08, **k):
        if _has_sym(a) or _has_sym(b):
            def one(x, y):
                d = x - y
                ay = abs(y)
                return (d <= atol + rtol * ay) & (-d <= atol + rtol * ay)
            if isinstance(a, _np.ndarray) or isinstance(b, _np.ndarray):
                A, B = _np.broadcast_arrays(_obj(a), _obj(b))
                return _np.array([one(x, y) for x, y in zip(A.flat, B.flat)], dtype=object).reshape(A.shape)
            return one(a, b)
        return _np.isclose(a, b, rtol=rtol, atol=atol, **k)

    def allclose(self, a, b, **k):
        r = self.isclose(a, b, **k)
        return self.all(r)

    def all(self, x, *a, **k):
        if _has_sym(x):
            if _is_sym(x):
                return bool(x)
            return builtins.all(bool(e) for e in _obj(x).flat)
        return _np.all(x, *a, **k)

    def any(self, x, *a, **k):
        if _has_sym(x):
            if _is_sym(x):
                return bool(x)
            return builtins.any(bool(e) for e in _obj(x).flat)
        return _np.any(x, *a, **k)

    def where(self, c, *a):
        if _has_sym(c):
            c = _np.array([bool(e) for e in _obj(c).flat]).reshape(_np.shape(c))
        if a and (builtins.any(_has_sym(x) for x in a)):
            x, y = a
            C, X, Y = _np.broadcast_arrays(_np.asarray(c), _obj(x), _obj(y))
            return _np.array([xx if cc else yy for cc, xx, yy in zip(C.flat, X.flat, Y.flat)], dtype=object).reshape(C.shape)
        return _np.where(c, *a)

    # elementwise numerics
    def round(self, x, decimals=0, **k):
        if _has_sym(x) or (isinstance(x, _np.ndarray) and x.dtype == object):
            if _is_sym(x):
                return round(x, decimals)
            return _map(lambda e: round(e, decimals) if isinstance(e, SymReal) else _np.round(float(e), decimals), x)
        return _np.round(x, decimals, **k)

    around = round

    def abs(self, x):
        if _has_sym(x):
            if _is_sym(x):
                return abs(x)
            return _map(abs, x)
        return _np.abs(x)

    absolute = abs

    def _minmax(self, a, b, pick_min):
        def one(x, y):
            if pick_min:
                return x if (x <= y) else y
            return x if (x >= y) else y
        if isinstance(a, _np.ndarray) or isinstance(b, _np.ndarray) or isinstance(a, list) or isinstance(b, list):
            A, B = _np.broadcast_arrays(_obj(a), _obj(b))
            return _np.array([one(x, y) for x, y in zip(A.flat, B.flat)], dtype=object).reshape(A.shape)
        return one(a, b)

    def minimum(self, a, b, **k):
        if _has_sym(a) or _has_sym(b):
            return self._minmax(a, b, True)
        return _np.minimum(a, b, **k)

    def maximum(self, a, b, **k):
        if _has_sym(a) or _has_sym(b):
            return self._minmax(a, b, False)
        return _np.maximum(a, b, **k)

    def clip(self, x, lo, hi, **k):
        if _has_sym(x) or _has_sym(lo) or _has_sym(hi):
            r = x
            if lo is not None:
                r = self.maximum(r, lo)
            if hi is not None:
                r = self.minimum(r, hi)
            return r
        return _np.clip(x, lo, hi, **k)

    def min(self, x, *a, **k):
        if _has_sym(x):
            it = list(_obj(x).flat)
            r = it[0]
            for e in it[1:]:
                r = e if (e < r) else r
            return r
        return _np.min(x, *a, **k)

    amin = min

    def max(self, x, *a, **k):
        if _has_sym(x):
            it = list(_obj(x).flat)
            r = it[0]
            for e in it[1:]:
                r = e if (e > r) else r
            return r
        return _np.max(x, *a, **k)

    amax = max

    def sum(self, x, *a, **k):
        if _has_sym(x) and not a and not k:
            t = 0
            for e in _obj(x).flat:
                t = t + e
            return t
        return _np.sum(x, *a, **k)

    def cumsum(self, x, *a, **k):
        if _has_sym(x):
            out = []
            t = 0
            for e in _obj(x).flat:
                t = t + e
                out.append(t)
            return _np.array(out, dtype=object)
        return _np.cumsum(x, *a, **k)

    def nan_to_num(self, x, *a, **k):
        if _has_sym(x):
            return x
        return _np.nan_to_num(x, *a, **k)

    def divide(self, a, b, *r, **k):
        if _has_sym(a) or _has_sym(b):
            return a / b
        return _np.divide(a, b, *r, **k)

    def multiply(self, a, b, *r, **k):
        if _has_sym(a) or _has_sym(b):
            return _obj(a) * _obj(b) if (isinstance(a, (_np.ndarray, list)) or isinstance(b, (_np.ndarray, list))) else a * b
        return _np.multiply(a, b, *r, **k)

    def subtract(self, a, b, *r, **k):
        if _has_sym(a) or _has_sym(b):
            return _obj(a) - _obj(b) if (isinstance(a, (_np.ndarray, list)) or isinstance(b, (_np.ndarray, list))) else a - b
        return _np.subtract(a, b, *r, **k)

    def add(self, a, b, *r, **k):
        if _has_sym(a) or _has_sym(b):
            return _obj(a) + _obj(b) if (isinstance(a, (_np.ndarray, list)) or isinstance(b, (_np.ndarray, list))) else a + b
        return _np.add(a, b, *r, **k)

    def float64(self, x):
        if _is_sym(x):
            return x
        return _np.float64(x)


_builtin_isinstance = builtins.isinstance


def sym_isinstance(o, t):
    """shadow for a module-global `isinstance`: a SymReal passes for float."""
    if _builtin_isinstance(o, SymReal):
        ts = t if _builtin_isinstance(t, tuple) else (t,)
        if float in ts or _np.floating in ts or _np.number in ts or _np.float64 in ts:
            return True
    return _builtin_isinstance(o, t)


class patched:
    """context manager: rebind module globals (np, isinstance, ...) and restore afterwards."""

    def __init__(self, *mods, np=True, isinstance_=False, extra=None, symarray=False):
        self.symarray = symarray
        self.mods = mods
        self.np = np
        self.isinstance_ = isinstance_
        self.extra = extra or {}
        self.saved = []

    def __enter__(self):
        prox = NpProxy(symarray=self.symarray)
        for m in self.mods:
            if self.np and hasattr(m, "np"):
                self.saved.append((m, "np", m.np))
                m.np = prox
            if self.isinstance_:
                self.saved.append((m, "isinstance", m.__dict__.get("isinstance", _MISSING)))
                m.isinstance = sym_isinstance
        for (m, name), v in self.extra.items():
            self.saved.append((m, name, m.__dict__.get(name, _MISSING)))
            setattr(m, name, v)
        return self

    def __exit__(self, *a):
        for m, name, v in reversed(self.saved):
            if v is _MISSING:
                try:
                    delattr(m, name)
                except AttributeError:
                    pass
            else:
                setattr(m, name, v)
        return False


_MISSING = object()
