"""PEP-316 harness for C15: the country-selection rule of ScenarioRunnerNoTrade.get_countries_to_run_and_skip with symbolic entries."""
from typing import List

from src.scenarios.run_model_no_trade import ScenarioRunnerNoTrade

CODES = ["A", "B", "C"]


def _selected(lst):
    """documented rule, written independently: empty -> all; all entries marked '!' -> everything except those; otherwise only the unmarked entries"""
    if len(lst) == 0:
        return list(CODES)
    if all("!" in c for c in lst):
        skip = [c.replace("!", "") for c in lst]
        return [c for c in CODES if c not in skip]
    run = [c for c in lst if "!" not in c]
    return [c for c in CODES if c in run]


def _rule(entries):
    before = list(entries)
    run, skip = ScenarioRunnerNoTrade().get_countries_to_run_and_skip(entries)
    got = [c for c in CODES if (len(run) == 0 or c in run) and c not in skip]
    return got == _selected(before) and entries == before


def selection_rule_up_to_two_entries(n: int, e1: str, e2: str) -> bool:
    """
    pre: 0 <= n <= 2 and len(e1) <= 2 and len(e2) <= 2
    post: _
    """
    return _rule([e1, e2][:n])


def selection_rule_three_entries_one_symbolic(e: str, k: int, pos: int) -> bool:
    """
    pre: len(e) <= 2 and 0 <= k < 16 and 0 <= pos < 3
    post: _
    """
    opts = ["A", "!A", "B", "!C"]
    others = [opts[k // 4], opts[k % 4]]
    entries = others[:pos] + [e] + others[pos:]
    return _rule(entries)
