"""PEP-316 harness functions for C13 (scenario options), analysed by crosshair-tool: one option family at a time gets a fully symbolic string
value; the real ScenarioRunner.set_depending_on_option runs on a real country row."""
import ast
import copy
import inspect
import os
import textwrap

import pandas as pd

from src.scenarios.run_scenario import ScenarioRunner
import src.food_system.animal_populations as ap

_REPO = os.environ.get("VERIF_REPO", "/repo")
_T = pd.read_csv(os.path.join(_REPO, "data/no_food_trade/computer_readable_combined.csv"))
_ROW = _T[_T["iso3"] == os.environ.get("C13_COUNTRY", "ARG")].iloc[0]
BASE = dict(NMONTHS=48, scale="country", seasonality="country", grasses="baseline", crop_disruption="zero", scenario="no_resilient_foods", fish="baseline", waste="baseline_in_country",
            nutrition="baseline", intake_constraints="enabled", shutoff="continued", cull="do_eat_culled", fat="not_required", protein="not_required", meat_strategy="baseline_breeding",
            stored_food="baseline", ratio_stocks_untouched="baseline")
# values documented in scenarios/README.md ("Allowed Values")
DOC = dict(
    scale=["country"],     # `global` is documented too but needs country_data=None: decided in a separate concrete case
    # values the README marks "Only applies to `global` scale option" are documented as NOT applicable here (country scale) and must be rejected
    seasonality=["no_seasonality", "country"],
    grasses=["baseline", "country_nuclear_winter", "all_crops_die_instantly"],
    crop_disruption=["zero", "country_nuclear_winter", "all_crops_die_instantly"],
    scenario=["no_resilient_foods", "all_resilient_foods", "all_resilient_foods_and_more_area", "seaweed", "methane_scp", "cellulosic_sugar", "industrial_foods", "relocated_crops", "greenhouse"],
    fish=["zero", "baseline", "nuclear_winter"],
    waste=["zero", "tripled_prices_in_country", "doubled_prices_in_country", "baseline_in_country"],
    nutrition=["baseline", "catastrophe"],
    intake_constraints=["enabled", "disabled_for_humans"],
    stored_food=["zero", "baseline"],
    ratio_stocks_untouched=["zero", "baseline", "no_stored_food_between_years"],
    shutoff=["immediate", "short_delayed_shutoff", "long_delayed_shutoff", "continued", "continued_after_10_percent_fed"],
    cull=["do_eat_culled", "dont_eat_culled"],
    fat=["required", "not_required"],
    protein=["required", "not_required"],
    meat_strategy=[],
)
# accepted by the dispatcher although the README does not list them (tolerated, they are spelled out in the dispatcher's own error messages / YAML files)
GLOBAL_ONLY = dict(seasonality=["baseline_globally", "nuclear_winter_globally"], grasses=["global_nuclear_winter"], crop_disruption=["global_nuclear_winter"],
                   waste=["tripled_prices_globally", "doubled_prices_globally", "baseline_globally"])
EXTRA = dict(shutoff=["one_month_delayed_shutoff", "long_delayed_shutoff_after_10_percent_fed"], ratio_stocks_untouched=["no_stored_between_years", "baseline_no_stored_between_years"],
             meat_strategy=["reduce_breeding", "baseline_breeding", "feed_only_ruminants"])


def _member(v, values):
    for d in values:
        if v == d:
            return True
    return False


def _dispatch(opt):
    """'accepted' / 'rejected' (AssertionError) / 'exit' (sys.exit) and the returned constants"""
    try:
        c, t, loader = ScenarioRunner().set_depending_on_option(opt, country_data=_ROW.copy())
        return "accepted", c
    except AssertionError:
        return "rejected", None
    except SystemExit:
        return "exit", None


def _family(family, v):
    opt = dict(BASE)
    opt[family] = v
    before = copy.deepcopy(opt)
    status, c = _dispatch(opt)
    allowed = _member(v, DOC[family]) or _member(v, EXTRA.get(family, []))
    return (status == "accepted") == allowed and status != "exit" and opt == before


def wrapper_source(maxlen=45):
    """one wrapper per option family (crosshair needs real defs with docstrings): written to a scratch file by harness/C13_options.py"""
    src = ["import sys", "from xhair.c13_options import _family", ""]
    for fam in DOC:
        src.append('def option_%s(v: str) -> bool:\n    """\n    pre: len(v) <= %d\n    post: _\n    """\n    return _family(%r, v)\n' % (fam, maxlen, fam))
    return "\n".join(src)


def missing_option_rejected(i: int) -> bool:
    """
    pre: 0 <= i < 16
    post: _
    """
    keys = [k for k in BASE if k != "NMONTHS"]
    opt = dict(BASE)
    del opt[keys[i]]
    before = copy.deepcopy(opt)
    status, c = _dispatch(opt)
    return status == "rejected" and opt == before


def known_failing_rewrite_leaves_caller_untouched(iso: str, a: int, b: int) -> bool:
    """
    pre: len(iso) <= 3 and 0 <= a < 4 and 0 <= b < 4
    post: _
    """
    opt = dict(BASE)
    opt["shutoff"] = ["continued", "long_delayed_shutoff", "short_delayed_shutoff", "immediate"][a]
    opt["scenario"] = ["all_resilient_foods", "seaweed", "greenhouse", "no_resilient_foods"][b]
    opt["meat_strategy"] = "feed_only_ruminants"
    before = copy.deepcopy(opt)
    out = ScenarioRunner().alter_scenario_if_known_to_fail(opt, iso)
    changed = {k for k in out if out[k] != opt.get(k)}
    return opt == before and out is not opt and set(out.keys()) == set(opt.keys()) and changed <= {"shutoff"}


# ------------------------------------------------------------------------------------------- head-count overrides
def _lifted_override_block():
    """the `if constants_inputs:` block of animal_populations.main(), lifted from the current source"""
    tree = ast.parse(textwrap.dedent(inspect.getsource(ap.main)))
    fn = tree.body[0]
    blocks = [n for n in fn.body if isinstance(n, ast.If) and isinstance(n.test, ast.Name) and n.test.id == "constants_inputs"]
    assert len(blocks) == 1, "cannot find the override block of main()"
    new = ast.FunctionDef(name="apply_overrides", args=ast.arguments(posonlyargs=[], args=[ast.arg("constants_inputs"), ast.arg("df_animal_stock_info"), ast.arg("country_code")], kwonlyargs=[],
                                                                     kw_defaults=[], defaults=[]), body=[blocks[0]], decorator_list=[], type_params=[])
    mod = ast.Module(body=[new], type_ignores=[])
    ast.fix_missing_locations(mod)
    ns = dict(vars(ap))
    exec(compile(mod, "<lifted override block of main()>", "exec"), ns)
    return ns["apply_overrides"]


class _Items:
    """stands for the constants dictionary (a real dict with a symbolic key makes CrossHair explore hash collisions)"""

    def __init__(self, pairs):
        self.pairs = pairs

    def __bool__(self):
        return True

    def items(self):
        return list(self.pairs)


class _Loc:
    def __init__(self, rec):
        self.rec = rec

    def __setitem__(self, k, v):
        self.rec.append((k[0], k[1], v))


class _Table:
    def __init__(self):
        self.writes = []
        self.loc = _Loc(self.writes)


_APPLY = _lifted_override_block()


def head_override_reaches_its_column(species: str, n: int) -> bool:
    """
    pre: 1 <= len(species) <= 8 and 0 <= n <= 1000000
    post: _
    """
    # the dispatcher turns '<species>_head' into '<species>_head_start' (checked concretely in harness/C13_options.py for the real species);
    # here: the override block of main() must write exactly the '<species>_head' column for ANY species string
    t = _Table()
    _APPLY(_Items([("NMONTHS", 48), (species + "_head_start", n), ("COUNTRY_CODE", "ARG")]), t, "ARG")
    return t.writes == [("ARG", species + "_head", n)]


def dispatcher_passes_head_override_on(n: int, i: int) -> bool:
    """
    pre: 0 <= n <= 1000000 and 0 <= i < 3
    post: _
    """
    key = ["rabbit_head", "milk_cattle_head", "asses_head"][i]
    opt = dict(BASE)
    opt[key] = n
    before = copy.deepcopy(opt)
    status, c = _dispatch(opt)
    s0, c0 = _dispatch(dict(BASE))
    if status != "accepted" or s0 != "accepted":
        return False
    changed = {k for k in set(c0) | set(c) if k not in c0 or k not in c or not _eq(c0[k], c[k])}
    return c.get(key + "_start") == n and changed == {key + "_start"} and opt == before


def override_changes_only_what_it_names(x: float, which: int) -> bool:
    """
    pre: 0 <= which < 5
    pre: 0.0 <= x <= 1.0
    post: _
    """
    names = ["MINIMUM_PERCENT_FED_BEFORE_NONHUMAN_CONSUMPTION_ALLOWED", "RATIO_STOCKS_UNTOUCHED", "kg_meat_per_large_animal", "CROP_PRODUCTION_MULTIPLIER", "GRASSES_PRODUCTION_MULTIPLIER"]
    key = names[which]
    s0, c0 = _dispatch(dict(BASE))
    opt = dict(BASE)
    opt[key] = x
    s1, c1 = _dispatch(opt)
    if s0 != "accepted" or s1 != "accepted":
        return False
    changed = {k for k in set(c0) | set(c1) if k not in c0 or k not in c1 or not _eq(c0[k], c1[k])}
    if which <= 2:
        return changed <= {key} and c1[key] == x
    pre = "RATIO_CROPS_YEAR" if which == 3 else "RATIO_GRASSES_YEAR"
    expect = {k for k in c0 if k.startswith(pre)}
    return changed <= expect and all(c1[k] == c0[k] * x for k in expect)


def _eq(a, b):
    try:
        r = a == b
        if hasattr(r, "all"):
            return bool(r.all())
        return bool(r)
    except Exception:
        return a is b
