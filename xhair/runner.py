"""Runs crosshair-tool on PEP-316 harness functions (one OS process per condition) and maps its verdicts (DESIGN 3.3):
  "Confirmed over all paths"  -> discharged
  counterexample              -> parsed, replayed in a plain interpreter, reported only if it reproduces
  "Not confirmed" / "Unable to meet precondition" / timeout -> inconclusive (never success)
"""
import ast
import concurrent.futures as cf
import importlib.util
import os
import re
import subprocess
import sys
import time

HERE = os.path.dirname(os.path.dirname(os.path.abspath(__file__)))


def functions_of(path):
    """[(name, lineno_inside_def)] of every top-level function that has a `post:` line in its docstring"""
    tree = ast.parse(open(path).read())
    out = []
    for n in tree.body:
        if isinstance(n, ast.FunctionDef):
            doc = ast.get_docstring(n) or ""
            if "post:" in doc:
                out.append((n.name, n.body[0].lineno))
    return out


def _one(args):
    path, name, line, timeout, repo, extra_env = args
    env = dict(os.environ)
    env["PYTHONPATH"] = HERE + os.pathsep + repo + os.pathsep + env.get("PYTHONPATH", "")
    env["MPLBACKEND"] = "Agg"
    env.update(extra_env or {})
    cmd = [sys.executable, "-m", "crosshair", "check", "--report_all", "--per_condition_timeout", str(timeout), "--per_path_timeout", str(max(5, timeout // 4)),
           "%s:%d" % (path, line)]
    t = time.time()
    try:
        p = subprocess.run(cmd, cwd=repo, env=env, stdout=subprocess.PIPE, stderr=subprocess.STDOUT, text=True, timeout=timeout * 3 + 120)
        out = p.stdout
    except subprocess.TimeoutExpired as e:
        out = (e.stdout or "") + "\nTIMEOUT (wall)"
    wall = time.time() - t
    status, msg, call = "inconclusive", out.strip()[-600:], None
    for ln in out.splitlines():
        m = re.match(r"^(.*?):(\d+): (error|info): (.*)$", ln)
        if not m:
            continue
        kind, text = m.group(3), m.group(4)
        if kind == "info" and text.startswith("Confirmed over all paths"):
            status, msg = "confirmed", text
        elif kind == "error":
            status, msg = "counterexample", text
            mm = re.search(r"when calling (.*?)(?: \(which returns.*)?$", text)
            if mm:
                call = mm.group(1)
            break
        elif kind == "info" and ("Not confirmed" in text or "Unable to meet precondition" in text):
            status, msg = "inconclusive", text
    return dict(func=name, line=line, status=status, message=msg, call=call, wall_s=round(wall, 1), raw=out[-1500:])


def run(path, timeout=60, procs=16, repo="/repo", only=None, extra_env=None):
    fns = [(n, l) for n, l in functions_of(path) if not only or n in only]
    with cf.ThreadPoolExecutor(max_workers=procs) as ex:
        return list(ex.map(_one, [(path, n, l, timeout, repo, extra_env) for n, l in fns]))


def replay_call(path, call, repo="/repo"):
    """evaluate the counterexample call in a plain interpreter (subprocess, cwd=/repo); returns (reproduced, detail)"""
    code = (
        "import sys, os\n"
        "sys.path.insert(0, %r); sys.path.insert(0, %r)\n"
        "import importlib.util\n"
        "spec = importlib.util.spec_from_file_location('h', %r); h = importlib.util.module_from_spec(spec); spec.loader.exec_module(h)\n"
        "try:\n"
        "    r = eval(%r, vars(h))\n"
        "    print('RESULT', repr(r))\n"
        "except BaseException as e:\n"
        "    print('RAISED', type(e).__name__, str(e)[:200])\n"
    ) % (HERE, repo, path, call)
    env = dict(os.environ)
    env["MPLBACKEND"] = "Agg"
    p = subprocess.run([sys.executable, "-c", code], cwd=repo, env=env, stdout=subprocess.PIPE, stderr=subprocess.STDOUT, text=True, timeout=300)
    out = p.stdout.strip().splitlines()[-1] if p.stdout.strip() else ""
    if out.startswith("RESULT"):
        val = out[len("RESULT "):]
        return (val in ("False", "None")), out
    if out.startswith("RAISED"):
        return True, out
    return False, "replay produced no result: %s" % p.stdout[-300:]
