"""Label properties for C11 (unit labels of food quantities).  Each function returns True iff the documented labelling rule holds for the
real Food API for the given three labels.  harness/C11_labels.py generates, for every property and every label slot, a PEP-316 wrapper in which
that slot's label is a symbolic string (the other two are concrete labels of the model's vocabulary) and hands it to crosshair-tool.
Numbers are concrete here; the numeric side of the comparison predicates is decided by SYMX in harness/C11_labels.py."""
import copy

import numpy as np

from src.food_system.food import Food

EM = " each month"
PM = " per month"


def _setup():
    Food.conversions.set_nutrition_requirements(2100, 47, 51, True, True, 1e6)


def _ok(r, units):
    return [r.kcals_units, r.fat_units, r.protein_units] == list(units) and list(r.units) == list(units)


def _snap(x):
    return (copy.deepcopy(x.kcals), copy.deepcopy(x.fat), copy.deepcopy(x.protein), x.kcals_units, x.fat_units, x.protein_units, list(x.units))


def _same(x, s):
    return bool(np.all(np.asarray(x.kcals) == np.asarray(s[0])) and np.all(np.asarray(x.fat) == np.asarray(s[1])) and np.all(np.asarray(x.protein) == np.asarray(s[2]))
                and (x.kcals_units, x.fat_units, x.protein_units) == s[3:6] and list(x.units) == s[6])


def _scalar(ku, fu, pu, a=3.0):
    return Food(a, a + 1, a + 2, ku, fu, pu)


def _monthly(ku, fu, pu, a=3.0):
    return Food([a, a + 1], [a + 2, a + 3], [a + 4, a + 5], ku, fu, pu)


def ctor_scalar(ku: str, fu: str, pu: str) -> bool:
    _setup()
    return _ok(_scalar(ku, fu, pu), [ku, fu, pu])


def ctor_monthly(ku: str, fu: str, pu: str) -> bool:
    _setup()
    x = _monthly(ku, fu, pu)
    return _ok(x, [ku + EM, fu + EM, pu + EM]) and x.is_list_monthly()


def ctor_argument_shapes(ku: str, fu: str, pu: str) -> bool:
    """every accepted shape of the constructor's arguments: nutrients left at their integer default (expanded to zero series), one of them only, lists, arrays, numpy scalars"""
    _setup()
    um = [ku + EM, fu + EM, pu + EM]
    k, f, p = [3.0, 4.0], [5.0, 6.0], [7.0, 8.0]
    shapes = [Food(k, kcals_units=ku, fat_units=fu, protein_units=pu), Food(k, 0, 0, ku, fu, pu), Food(k, f, 0, ku, fu, pu), Food(k, 0, p, ku, fu, pu), Food(np.array(k), np.array(f), np.array(p), ku, fu, pu),
              Food(np.array(k), kcals_units=ku, fat_units=fu, protein_units=pu), Food(np.array(k), np.array(f), 0, ku, fu, pu), Food(k, np.array(f), p, ku, fu, pu)]
    for x in shapes:
        if not (_ok(x, um) and x.is_list_monthly() and len(x.fat) == 2 and len(x.protein) == 2 and x.NMONTHS == 2):
            return False
    scal = [Food(3.0, kcals_units=ku, fat_units=fu, protein_units=pu), Food(3, 0, 0, ku, fu, pu), Food(np.float64(3.0), np.float64(1.0), 2, ku, fu, pu)]
    for x in scal:
        if not (_ok(x, [ku, fu, pu]) and not x.is_list_monthly()):
            return False
    # a quantity built with defaulted nutrients combines with the same quantity built from three series
    a, b = Food(k, kcals_units=ku, fat_units=fu, protein_units=pu), Food(k, [0.0, 0.0], [0.0, 0.0], ku, fu, pu)
    return _ok(a + b, um) and _ok(a - b, um) and _ok(Food.min_elementwise(a, b), um) and bool(a == b)


def add_sub_scalar(ku: str, fu: str, pu: str) -> bool:
    _setup()
    x, y = _scalar(ku, fu, pu), _scalar(ku, fu, pu, 10.0)
    sx, sy = _snap(x), _snap(y)
    return _ok(x + y, [ku, fu, pu]) and _ok(x - y, [ku, fu, pu]) and _ok(-x, [ku, fu, pu]) and _same(x, sx) and _same(y, sy)


def add_sub_monthly(ku: str, fu: str, pu: str) -> bool:
    _setup()
    x, y = _monthly(ku, fu, pu), _monthly(ku, fu, pu, 10.0)
    sx, sy = _snap(x), _snap(y)
    u = [ku + EM, fu + EM, pu + EM]
    return _ok(x + y, u) and _ok(x - y, u) and _ok(-x, u) and _same(x, sx) and _same(y, sy)


def different_units_refused(ku: str, fu: str, pu: str, ku2: str, fu2: str, pu2: str) -> bool:
    _setup()
    x, y = _scalar(ku, fu, pu), _scalar(ku2, fu2, pu2)
    refused = 0
    for op in (lambda: x + y, lambda: x - y, lambda: x / y, lambda: x == y, lambda: x != y, lambda: x.all_greater_than(y), lambda: x.all_less_than(y), lambda: x.any_greater_than(y),
               lambda: x.any_less_than(y), lambda: x.all_greater_than_or_equal_to(y), lambda: x.all_less_than_or_equal_to(y), lambda: x.any_greater_than_or_equal_to(y),
               lambda: x.any_less_than_or_equal_to(y), lambda: Food.min_elementwise(x, y)):
        try:
            op()
        except AssertionError:
            refused += 1
    return refused == 14


def different_units_refused_monthly(ku: str, fu: str, pu: str, ku2: str, fu2: str, pu2: str) -> bool:
    _setup()
    x, y = _monthly(ku, fu, pu), _monthly(ku2, fu2, pu2)
    refused = 0
    for op in (lambda: x + y, lambda: x - y, lambda: x / y, lambda: x == y, lambda: x != y, lambda: x.all_greater_than(y), lambda: x.any_less_than(y), lambda: x.all_less_than_or_equal_to(y),
               lambda: x.any_less_than_or_equal_to(y), lambda: Food.min_elementwise(x, y)):
        try:
            op()
        except AssertionError:
            refused += 1
    return refused == 10


def mul_div_by_number(ku: str, fu: str, pu: str) -> bool:
    _setup()
    x, xm = _scalar(ku, fu, pu), _monthly(ku, fu, pu)
    sx, sm = _snap(x), _snap(xm)
    um = [ku + EM, fu + EM, pu + EM]
    return (_ok(x * 2.5, [ku, fu, pu]) and _ok(2.5 * x, [ku, fu, pu]) and _ok(x / 2.5, [ku, fu, pu]) and _ok(xm * 2.5, um) and _ok(2.5 * xm, um) and _ok(xm / 2.5, um)
            and _same(x, sx) and _same(xm, sm))


def ratio_times_quantity_scalar(ku: str, fu: str, pu: str) -> bool:
    _setup()
    r = Food(0.5, 0.25, 0.75, "ratio", "ratio", "ratio")
    x = _scalar(ku, fu, pu)
    sr, sx = _snap(r), _snap(x)
    return _ok(r * x, [ku, fu, pu]) and _ok(x * r, [ku, fu, pu]) and _same(r, sr) and _same(x, sx)


def ratio_times_quantity_monthly(ku: str, fu: str, pu: str) -> bool:
    _setup()
    r = Food(0.5, 0.25, 0.75, "ratio", "ratio", "ratio")
    rm = Food([0.5, 0.1], [0.25, 0.2], [0.75, 0.3], "ratio", "ratio", "ratio")
    xm = _monthly(ku, fu, pu)
    um = [ku + EM, fu + EM, pu + EM]
    sr, sm, sx = _snap(r), _snap(rm), _snap(xm)
    return _ok(r * xm, um) and _ok(xm * r, um) and _ok(rm * xm, um) and _ok(xm * rm, um) and _same(r, sr) and _same(rm, sm) and _same(xm, sx)


def quantity_times_quantity_refused(ku: str, fu: str, pu: str) -> bool:
    _setup()
    x, y = _scalar(ku, fu, pu), _scalar(ku, fu, pu, 7.0)
    xm = _monthly(ku, fu, pu)
    n = 0
    for op in (lambda: x * y, lambda: xm * xm, lambda: x * xm, lambda: xm * x):
        try:
            op()
        except AssertionError:
            n += 1
    return n == 4


def divide_same_units_gives_ratio(ku: str, fu: str, pu: str) -> bool:
    _setup()
    x, y = _scalar(ku, fu, pu), _scalar(ku, fu, pu, 10.0)
    xm, ym = _monthly(ku, fu, pu), _monthly(ku, fu, pu, 10.0)
    return _ok(x / y, ["ratio"] * 3) and _ok(xm / ym, ["ratio" + EM] * 3)


def month_extraction(ku: str, fu: str, pu: str) -> bool:
    _setup()
    xm = _monthly(ku, fu, pu)
    s = _snap(xm)
    u = [ku + PM, fu + PM, pu + PM]
    a, b = xm.get_month(1), xm.get_first_month()
    return _ok(a, u) and _ok(b, u) and not a.is_list_monthly() and a.kcals == 4.0 and b.kcals == 3.0 and _same(xm, s)


def indexing(ku: str, fu: str, pu: str) -> bool:
    _setup()
    xm = Food([1.0, 2.0, 3.0], [4.0, 5.0, 6.0], [7.0, 8.0, 9.0], ku, fu, pu)
    s = _snap(xm)
    sl = xm[0:2]
    el = xm[1]
    # the same element reached with the index types numpy hands out (np.int64 from arange / argmax)
    el2 = xm[np.int64(1)]
    el3 = xm[np.argmax(xm.kcals)]
    return (_ok(sl, [ku + EM, fu + EM, pu + EM]) and sl.is_list_monthly() and len(sl.kcals) == 2 and not el.is_list_monthly() and el.kcals == 2.0
            and _ok(el, [ku + PM, fu + PM, pu + PM]) and _ok(el2, [ku + PM, fu + PM, pu + PM]) and el2.kcals == 2.0 and _ok(el3, [ku + PM, fu + PM, pu + PM]) and el3.kcals == 3.0 and _same(xm, s))


def sums_and_extrema(ku: str, fu: str, pu: str) -> bool:
    _setup()
    xm = _monthly(ku, fu, pu)
    s = _snap(xm)
    tot, run, lo, hi = xm.get_nutrients_sum(), xm.get_running_total_nutrients_sum(), xm.get_min_all_months(), xm.get_max_all_months()
    um = [ku + EM, fu + EM, pu + EM]
    return (_ok(tot, [ku, fu, pu]) and tot.kcals == 7.0 and _ok(run, um) and list(run.kcals) == [3.0, 7.0] and _ok(lo, [ku, fu, pu]) and lo.kcals == 3.0 and _ok(hi, [ku, fu, pu]) and hi.kcals == 4.0
            and _same(xm, s))


def elementwise_and_cleanup(ku: str, fu: str, pu: str) -> bool:
    _setup()
    xm, ym = Food([1.5, -2.0], [0.5, 3.0], [-1.0, 2.0], ku, fu, pu), _monthly(ku, fu, pu, 0.0)
    x, y = Food(1.5, -2.0, 0.25, ku, fu, pu), _scalar(ku, fu, pu, 0.0)
    sx, sy = _snap(xm), _snap(ym)
    um = [ku + EM, fu + EM, pu + EM]
    return (_ok(Food.min_elementwise(xm, ym), um) and _ok(Food.min_elementwise(x, y), [ku, fu, pu]) and _ok(xm.get_rounded_to_decimal(0), um) and _ok(xm.negative_values_to_zero(), um)
            and _ok(x.negative_values_to_zero(), [ku, fu, pu]) and _ok(xm.shift(1), um) and _ok(xm.get_abs_values(), um) and _same(xm, sx) and _same(ym, sy))


def unit_helpers(ku: str, fu: str, pu: str) -> bool:
    _setup()
    a = _monthly(ku, fu, pu)
    a.set_units_from_list_to_total()
    ok1 = _ok(a, [ku, fu, pu])
    b = _monthly(ku, fu, pu)
    b.set_units_from_list_to_element()
    ok2 = _ok(b, [ku + PM, fu + PM, pu + PM])
    c = _scalar(ku, fu, pu)
    c.set_units_from_element_to_list()
    ok3 = _ok(c, [ku + EM, fu + EM, pu + EM])
    d = _scalar(ku, fu, pu)
    d.set_units(pu, ku, fu)
    return ok1 and ok2 and ok3 and _ok(d, [pu, ku, fu]) and d.get_units() == [pu, ku, fu]


PROPS = ["ctor_scalar", "ctor_monthly", "ctor_argument_shapes", "add_sub_scalar", "add_sub_monthly", "mul_div_by_number", "ratio_times_quantity_scalar", "ratio_times_quantity_monthly", "quantity_times_quantity_refused",
         "divide_same_units_gives_ratio", "month_extraction", "indexing", "sums_and_extrema", "elementwise_and_cleanup", "unit_helpers"]
TWO = ["different_units_refused", "different_units_refused_monthly"]
NEEDS_NON_RATIO = ["ratio_times_quantity_scalar", "ratio_times_quantity_monthly", "quantity_times_quantity_refused"]
