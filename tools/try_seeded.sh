#!/bin/sh
# try_seeded.sh <seeded-name> <check-id> [extra vcheck args]: runs one check against one seeded change in a scratch worktree of /repo
# (for experiments while /repo is busy; the recorded evaluation is tools/eval_seeded.py, which patches /repo itself)
HERE="$(cd "$(dirname "$0")/.." && pwd)"
NAME="$1"; ID="$2"; shift 2
WT="/tmp/vp_exp_$$"
git -C /repo worktree add -q --detach "$WT" HEAD || exit 2
git -C "$WT" apply "$HERE/seeded/$NAME/patch.diff" || { git -C /repo worktree remove --force "$WT"; exit 2; }
VERIF_REPO="$WT" VERIF_EVIDENCE_DIR="/tmp/vp_exp_ev_$$" VERIF_REPLAY_DIR="/tmp/vp_exp_rp_$$" "$HERE/vcheck" "$ID" --tier quick "$@"
rc=$?
git -C /repo worktree remove --force "$WT"
rm -rf "/tmp/vp_exp_ev_$$" "/tmp/vp_exp_rp_$$"
exit $rc
