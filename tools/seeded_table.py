#!/usr/bin/env python3
"""writes the table of DESIGN.md section 9 from seeded/*/meta.json (between the SEEDED-TABLE markers)"""
import glob, json, os, re
HERE = os.path.dirname(os.path.dirname(os.path.abspath(__file__)))
rows = []
notes = []
extra = json.load(open(os.path.join(HERE, "tools", "seeded_history.json")))
for p in sorted(glob.glob(os.path.join(HERE, "seeded", "*", "meta.json"))):
    m = json.load(open(p))
    res = m.get("checks_result", {})
    cell = ", ".join("%s: %s" % (c, {0: "missed", 1: "VIOLATION", 2: "inconclusive", 124: "timeout"}.get(v["exit"], v["exit"])) + " (%ds)" % v["wall_s"] for c, v in res.items()) or "not evaluated"
    rows.append("| `%s` | %s | %s | %s | %s |" % (m["name"], m["property"], ", ".join(f.replace("src/", "") for f in m.get("files_changed", [])), m.get("needs_to_manifest", ""), cell))
    h = m.get("history") or extra.get(m["name"])
    if h:
        notes.append("- `%s`: %s" % (m["name"], h))
table = ["| seeded change | property | file | needs, to manifest | quick checks run against it (exit) |", "|---|---|---|---|---|"] + rows
text = "\n".join(table) + "\n\nChecks that were strengthened because a seeded change got past them (or made them inconclusive):\n\n" + "\n".join(notes) + "\n"
d = open(os.path.join(HERE, "DESIGN.md")).read()
a, b = "<!-- SEEDED-TABLE-BEGIN -->", "<!-- SEEDED-TABLE-END -->"
assert a in d and b in d
d = d[:d.index(a) + len(a)] + "\n" + text + d[d.index(b):]
open(os.path.join(HERE, "DESIGN.md"), "w").write(d)
print(len(rows), "rows")
