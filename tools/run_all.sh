#!/bin/sh
# run_all.sh [quick|thorough] ["C01 C02 ..."]: runs every registered (or the listed) quick or thorough check in sequence; prints one line per check; full output in $VERIF_OUT (default /tmp)
TIER="${1:-quick}"
OUT="${VERIF_OUT:-/tmp}"
cd "$(dirname "$0")/.."
IDS="${2:-$(python3 -c "import json; print(' '.join(c['property_id'] for c in json.load(open('MANIFEST.json'))['checks']))")}"
for id in $IDS; do
  s=$(date +%s)
  ./vcheck "$id" --tier "$TIER" > "$OUT/vcheck_${TIER}_$id.out" 2>&1
  rc=$?
  e=$(date +%s)
  echo "$id rc=$rc $((e-s))s $(grep -c '^KNOWN-FINDING' "$OUT/vcheck_${TIER}_$id.out") known  $(tail -1 "$OUT/vcheck_${TIER}_$id.out" | cut -c1-120)"
done
