#!/bin/sh
# runs every registered quick (or thorough) check in sequence; prints one line per check
TIER="${1:-quick}"
cd "$(dirname "$0")/.."
for id in $(python3 -c "import json; print(' '.join(c['property_id'] for c in json.load(open('MANIFEST.json'))['checks']))"); do
  s=$(date +%s)
  ./vcheck "$id" --tier "$TIER" > "/tmp/vcheck_$id.out" 2>&1
  rc=$?
  e=$(date +%s)
  echo "$id rc=$rc $((e-s))s $(grep -c '^KNOWN-FINDING' /tmp/vcheck_$id.out) known  $(tail -1 /tmp/vcheck_$id.out | cut -c1-120)"
done
