#!/usr/bin/env python3
"""Regenerates MANIFEST.json from tools/checks.json-like table below (kept in code so it stays consistent)."""
import json, os
HERE = os.path.dirname(os.path.dirname(os.path.abspath(__file__)))
CHECKS = json.load(open(os.path.join(HERE, "tools", "checks.json")))
props = [json.loads(l)["id"] for l in open(os.path.join(HERE, "properties.jsonl"))]
checks = []
for pid in props:
    c = CHECKS["claimed"].get(pid)
    if not c:
        continue
    checks.append(dict(property_id=pid, quick_cmd="./vcheck %s --tier quick" % pid, thorough_cmd="./vcheck %s --tier thorough" % pid,
                       evidence_file="evidence/%s.json" % pid, replay_cmd_template="./vcheck %s --replay {path}" % pid,
                       engine=c["engine"], level_claimed=dict(category=c.get("category", "model_checking"), text=c["text"], design_ref=c["design_ref"]),
                       level_note=c["note"], technique=c["technique"]))
na = [dict(property_id=p, reason=CHECKS["not_applicable"][p]) for p in props if p not in CHECKS["claimed"]]
assert all(p in CHECKS["not_applicable"] for p in props if p not in CHECKS["claimed"]), "every unclaimed property needs a reason"
m = dict(version=1, setup_cmd="./bootstrap.sh",
         hooks=dict(guard="ALLFED_INTEGRATED_MODEL_VERIF", enable="no source hooks: harnesses wrap methods and rebind module globals of /repo modules in-process",
                    baseline_off_cmd="cd /repo && /venv/bin/python -m pytest -ra -q -p no:cacheprovider --timeout=900 --continue-on-collection-errors",
                    source_commits=CHECKS.get("hook_commits", []), add_only=True),
         engines=CHECKS["engines"], checks=checks, notes=CHECKS["notes"], not_applicable=na)
json.dump(m, open(os.path.join(HERE, "MANIFEST.json"), "w"), indent=1)
print("MANIFEST.json: %d checks, %d not_applicable" % (len(checks), len(na)))
