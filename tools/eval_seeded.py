#!/usr/bin/env python3
"""Runs the registered checks against every seeded change under /verif/seeded/<name>/ (patch.diff + meta.json):
apply to /repo (git apply), run the check(s) of the property it breaks (and optionally all), undo (git checkout -- .), record the outcome in meta.json."""
import json, os, subprocess, sys, time, glob
HERE = os.path.dirname(os.path.dirname(os.path.abspath(__file__)))
REPO = "/repo"

def sh(cmd, timeout=None, **k):
    """runs in its own process group; on timeout the whole group is killed (pool workers included) and exit code 124 is reported"""
    import signal, tempfile
    with tempfile.TemporaryFile("w+") as out:
        p = subprocess.Popen(cmd, shell=True, stdout=out, stderr=subprocess.STDOUT, text=True, start_new_session=True, **k)
        try:
            rc = p.wait(timeout=timeout)
        except subprocess.TimeoutExpired:
            os.killpg(p.pid, signal.SIGKILL)
            p.wait()
            rc = 124
            # pool workers of THIS tree's interpreter only (a background run from a snapshot uses another interpreter path)
            for pid in os.listdir("/proc"):
                if pid.isdigit():
                    try:
                        cl = open("/proc/%s/cmdline" % pid, "rb").read().split(b"\0")
                    except OSError:
                        continue
                    if cl and cl[0].decode() == os.path.join(HERE, ".venv/bin/python") and b"forkserver" in b" ".join(cl):
                        try:
                            os.kill(int(pid), signal.SIGKILL)
                        except OSError:
                            pass
        out.seek(0)
        return subprocess.CompletedProcess(cmd, rc, stdout=out.read())

def main():
    os.environ["VERIF_EVIDENCE_DIR"] = "/tmp/vp_seeded_evidence"
    os.environ["VERIF_REPLAY_DIR"] = "/tmp/vp_seeded_replays"
    names = sys.argv[1:] or sorted(os.path.basename(os.path.dirname(p)) for p in glob.glob(os.path.join(HERE, "seeded", "*", "patch.diff")))
    assert sh("git -C %s status --porcelain --untracked-files=no" % REPO).stdout.strip() == "", "/repo has uncommitted changes"
    for name in names:
        d = os.path.join(HERE, "seeded", name)
        meta = json.load(open(os.path.join(d, "meta.json")))
        checks = meta.get("run_checks") or [meta["property"]]
        r = sh("git -C %s apply %s" % (REPO, os.path.join(d, "patch.diff")))
        if r.returncode != 0:
            print(name, "PATCH DOES NOT APPLY", r.stdout[-300:])
            continue
        out = {}
        try:
            for cid in checks:
                t = time.time()
                p = sh("%s/vcheck %s --tier quick" % (HERE, cid), cwd=HERE, timeout=int(os.environ.get("EVAL_TIMEOUT", "1800")))
                viol = [l for l in p.stdout.splitlines() if l.startswith("VIOLATION")]
                detail = [l.strip() for l in p.stdout.splitlines() if l.strip().startswith("violated:")][:2]
                out[cid] = dict(exit=p.returncode, violations=len(viol), wall_s=round(time.time() - t), detail=[x[:300] for x in detail])
                print(name, cid, "exit", p.returncode, "violations", len(viol), "%ds" % (time.time() - t), (detail[0][:160] if detail else p.stdout.strip().splitlines()[-1][:160] if p.stdout.strip() else ""))
        finally:
            sh("git -C %s checkout -- ." % REPO)
        meta["checks_result"] = out
        meta["caught_by"] = [c for c, v in out.items() if v["exit"] == 1]
        json.dump(meta, open(os.path.join(d, "meta.json"), "w"), indent=1)

main()
