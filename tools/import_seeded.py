#!/usr/bin/env python3
"""import_seeded.py <worktree> <name> <property> : confirms a sub-agent's seeded change in its scratch worktree (demo fails with the change, passes without it,
existing tests pass with it) and stores it under /verif/seeded/<name>/ (patch.diff, demo.py, notes.md, meta.json)."""
import json, os, shutil, subprocess, sys, time
HERE = os.path.dirname(os.path.dirname(os.path.abspath(__file__)))

def sh(cmd, cwd, timeout=3600):
    return subprocess.run(cmd, shell=True, cwd=cwd, stdout=subprocess.PIPE, stderr=subprocess.STDOUT, text=True, timeout=timeout)

def main():
    wt, name, prop = sys.argv[1], sys.argv[2], sys.argv[3]
    run_tests = "--tests" in sys.argv
    diff = sh("git diff -- src", wt).stdout
    assert diff.strip(), "no source change in " + wt
    with_change = sh("/venv/bin/python demo.py", wt, 1800)
    sh("git stash -- src", wt)
    try:
        without = sh("/venv/bin/python demo.py", wt, 1800)
    finally:
        sh("git stash pop", wt)
    assert sh("git diff -- src", wt).stdout == diff, "stash pop did not restore the change"
    ok = with_change.returncode != 0 and without.returncode == 0
    tests = None
    if run_tests:
        t = sh("/venv/bin/python -m pytest -q -p no:cacheprovider --timeout=900 tests/ --deselect tests/test_argentina_parameters.py", wt, 7200)
        tests = t.stdout.strip().splitlines()[-1] if t.stdout.strip() else "no output"
    d = os.path.join(HERE, "seeded", name)
    os.makedirs(d, exist_ok=True)
    # bytes, not text: some sources have CRLF line ends and a text-mode round trip would drop the CRs (the patch would no longer apply)
    raw = subprocess.run("git diff -- src", shell=True, cwd=wt, stdout=subprocess.PIPE).stdout
    open(os.path.join(d, "patch.diff"), "wb").write(raw)
    for f in ("demo.py", "notes.md"):
        if os.path.exists(os.path.join(wt, f)):
            shutil.copy(os.path.join(wt, f), os.path.join(d, f))
    meta = dict(name=name, property=prop, source="independent sub-agent given only the property text and a scratch worktree",
                demo_with_change_exit=with_change.returncode, demo_without_change_exit=without.returncode, demo_confirmed=ok,
                tests_with_change=tests, files_changed=sorted({l[6:] for l in diff.splitlines() if l.startswith("+++ b/")}),
                what_i_ran=["demo.py with the change applied and with `git stash -- src` in the scratch worktree", "pytest tests/ --deselect tests/test_argentina_parameters.py with the change applied" if run_tests else "tests not re-run here"])
    old = os.path.join(d, "meta.json")
    if os.path.exists(old):
        prev = json.load(open(old))
        prev.update({k: v for k, v in meta.items() if v is not None})
        meta = prev
    json.dump(meta, open(old, "w"), indent=1)
    print(name, "demo with/without:", with_change.returncode, without.returncode, "confirmed" if ok else "NOT CONFIRMED", "| tests:", tests)

main()
