"""Shared runner for all checks: case distribution over a process pool, counterexample replay,
known-findings matching, evidence writing, exit codes (DESIGN.md 3.6).

exit 0: every obligation discharged (unsat) on everything explored
exit 1: a replayed counterexample not listed in known_findings.json -> "VIOLATION property=<id> replay=<path>"
exit 2: inconclusive / harness error (never success, never a VIOLATION line)
"""
import json
import multiprocessing as mp
import os
import subprocess
import sys
import time
import traceback
import hashlib

HERE = os.path.dirname(os.path.abspath(__file__))
REPO = os.environ.get("VERIF_REPO", "/repo")
# evidence normally goes to /verif/evidence; runs against deliberately broken trees (tools/eval_seeded.py) redirect it
EVIDENCE_DIR = os.environ.get("VERIF_EVIDENCE_DIR") or os.path.join(HERE, "evidence")
REPLAY_DIR = os.environ.get("VERIF_REPLAY_DIR") or os.path.join(HERE, "replays")
KNOWN = os.path.join(HERE, "known_findings.json")


def enter_repo():
    """every src/ module runs git.Repo('.') at import: chdir first; put /repo on sys.path."""
    os.environ.setdefault("MPLBACKEND", "Agg")
    os.chdir(REPO)
    if REPO not in sys.path:
        sys.path.insert(0, REPO)
    if HERE not in sys.path:
        sys.path.insert(0, HERE)


def repo_fingerprint(files):
    h = hashlib.sha256()
    for f in files:
        p = os.path.join(REPO, f)
        try:
            h.update(open(p, "rb").read())
        except OSError:
            h.update(b"missing:" + f.encode())
    return h.hexdigest()[:16]


def load_known():
    try:
        return json.load(open(KNOWN))
    except OSError:
        return {"findings": [], "fixed": []}


def _worker(args):
    fn_mod, fn_name, case, seed = args
    t = time.time()
    try:
        import warnings
        warnings.simplefilter("ignore")
        enter_repo()
        mod = __import__(fn_mod, fromlist=[fn_name])
        r = getattr(mod, fn_name)(case, seed)
        r["case"] = case if isinstance(case, (str, int)) else json.dumps(case, sort_keys=True, default=str)
        r["wall_s"] = round(time.time() - t, 3)
        return r
    except BaseException as e:  # noqa
        return dict(case=str(case), fatal="%s: %s\n%s" % (type(e).__name__, e, traceback.format_exc(limit=10)), wall_s=round(time.time() - t, 3))


def run_cases(fn_mod, fn_name, cases, seed=0, procs=None, timeout_s=None):
    """runs worker `fn_mod.fn_name(case, seed)` for each case in a fork pool; returns list of result dicts."""
    procs = procs or min(16, max(1, len(cases)))
    if len(cases) == 0:
        return []
    if procs == 1 or os.environ.get("VERIF_SERIAL"):
        return [_worker((fn_mod, fn_name, c, seed)) for c in cases]
    # forkserver: workers are forked from a clean server process, never from this (possibly z3-using) parent
    ctx = mp.get_context("forkserver")
    ctx.set_forkserver_preload(["numpy", "z3", "vlib", "symx.engine", "symx.npproxy"])
    out = []
    with ctx.Pool(procs, maxtasksperchild=8) as pool:
        it = pool.imap_unordered(_worker, [(fn_mod, fn_name, c, seed) for c in cases], chunksize=1)
        t0 = time.time()
        for _ in range(len(cases)):
            try:
                remaining = None if timeout_s is None else max(1.0, timeout_s - (time.time() - t0))
                out.append(it.next(remaining))
            except mp.TimeoutError:
                out.append(dict(case="<pool>", fatal="wall-clock budget %.0fs exceeded; remaining cases not finished" % timeout_s))
                pool.terminate()
                break
    return out


def run_groups(rep, modname, groups, seed, only=None, procs=None):
    """groups: list of dict(name, fn, cases, replay, functions, bounds, symbolic, assumptions, stubs, outside[, min_completed]).
    All cases of all groups share one process pool; results are attributed back to their group."""
    groups = [g for g in groups if not only or g["name"] in only]
    tagged = []
    for gi, g in enumerate(groups):
        for c in g["cases"]:
            tagged.append((gi, g["fn"], c))
    # longest-first is unknown; keep declared order
    res = run_tagged(modname, tagged, seed, procs)
    for gi, g in enumerate(groups):
        rs = [r for (i, r) in res if i == gi]
        rep.add_group(g["name"], rs, g.get("functions", []), g.get("bounds", ""), g.get("symbolic", ""), g.get("assumptions", []),
                      g.get("stubs", []), g.get("outside", []), replay=g.get("replay"), min_completed=g.get("min_completed", 1))


def _tagged_worker(args):
    gi, rest = args
    return gi, _worker(rest)


def run_tagged(modname, tagged, seed, procs=None):
    if not tagged:
        return []
    procs = procs or min(16, len(tagged))
    # a group may name a worker of another module as "module:function"
    args = [(gi, ((fn.split(":")[0], fn.split(":")[1], c, seed) if ":" in fn else (modname, fn, c, seed))) for gi, fn, c in tagged]
    if procs == 1 or os.environ.get("VERIF_SERIAL"):
        return [_tagged_worker(a) for a in args]
    ctx = mp.get_context("forkserver")
    ctx.set_forkserver_preload(["numpy", "z3", "vlib", "symx.engine", "symx.npproxy"])
    # watchdog: if no case finishes for STALL seconds the pool is torn down and the unfinished cases are run once more in a fresh pool; a case that stalls twice is
    # reported as a fatal (inconclusive) result instead of hanging the check
    stall = float(os.environ.get("VERIF_STALL_S", "1500"))
    done = {}
    todo = list(range(len(args)))
    for attempt in (1, 2):
        if not todo:
            break
        with ctx.Pool(min(procs, len(todo)), maxtasksperchild=8) as pool:
            it = pool.imap_unordered(_indexed_worker, [(i, args[i]) for i in todo], chunksize=1)
            for _ in range(len(todo)):
                try:
                    i, res = it.next(stall)
                except mp.TimeoutError:
                    pool.terminate()
                    break
                done[i] = res
        todo = [i for i in todo if i not in done]
    for i in todo:
        gi, (m, f, c, sd) = args[i]
        done[i] = (gi, dict(case=c if isinstance(c, (str, int)) else json.dumps(c, sort_keys=True, default=str), fatal="no result within %.0f s in two attempts (worker stalled)" % stall, wall_s=stall))
    return [done[i] for i in range(len(args))]


def _indexed_worker(a):
    i, rest = a
    return i, _tagged_worker(rest)


def _case_cost(case):
    """rough replay cost of a case: its horizon if it has one"""
    try:
        c = json.loads(case) if isinstance(case, str) else case
        if isinstance(c, dict):
            inner = c.get("case") if isinstance(c.get("case"), dict) else c
            return float(inner.get("N") or inner.get("NM") or inner.get("n") or 0)
    except Exception:   # noqa
        pass
    return 0.0


class Report:
    def __init__(self, pid, tier, seed, level="model_checking"):
        self.pid = pid
        self.tier = tier
        self.seed = seed
        self.level = level
        self.t0 = time.time()
        self.groups = []          # each: dict(name, functions, bounds, symbolic, assumptions, stubs, outside, results)
        self.violations = []      # replayed, not known
        self.known_hits = []
        self.inconclusive = []
        self.validated = 0        # concrete differential validations of the encoding vs the real code
        self.samples = []
        self.notes = []
        self.extra = {}

    # ---- collecting ----
    def add_group(self, name, results, functions, bounds, symbolic, assumptions=(), stubs=(), outside=(), replay=None, min_completed=1):
        """results: list of engine summaries (dicts with stats/obligations/cex/errors/canary_bad).
        replay(case, cex) -> dict(reproduced=bool, observed=..., expected=..., what=str, key=str) or None"""
        g = dict(name=name, functions=list(functions), bounds=bounds, symbolic=symbolic, assumptions=list(assumptions),
                 stubs=list(stubs), outside=list(outside))
        tot = dict(cases=len(results), paths=0, completed=0, pruned_by_code_assertions=0, pruned_other=0, queries=0, solver_s=0.0, branches=0,
                   unsat=0, sat=0, unknown=0)
        obl = {}
        pending = []
        for r in results:
            if r.get("fatal"):
                self.inconclusive.append("%s case %s: %s" % (name, r.get("case"), r["fatal"][-1500:]))
                continue
            st = r["stats"]
            for k in tot:
                if k in st:
                    tot[k] += st[k]
            if st.get("completed", 0) < min_completed:
                self.inconclusive.append("%s case %s: only %d completed paths (vacuity guard)" % (name, r["case"], st.get("completed", 0)))
            if r.get("canary_bad"):
                self.inconclusive.append("%s case %s: canary unsat on %d paths (contradictory assumptions)" % (name, r["case"], r["canary_bad"]))
            for e in r.get("errors", []):
                self.inconclusive.append("%s case %s: %s" % (name, r["case"], e[:1500]))
            for on, oc in r["obligations"].items():
                o = obl.setdefault(on, dict(unsat=0, sat=0, unknown=0))
                for k in ("unsat", "sat", "unknown"):
                    o[k] += oc.get(k, 0)
                if oc.get("unknown"):
                    self.inconclusive.append("%s case %s obligation %s: solver unknown x%d" % (name, r["case"], on, oc["unknown"]))
            for cx in r.get("cex", []):
                pending.append((_case_cost(r["case"]), len(pending), r["case"], cx))
        # counterexamples are replayed on the real code cheapest case first (small horizons replay in seconds), within a wall-clock budget for the whole check
        for _, _, case, cx in sorted(pending, key=lambda t: (t[0], t[1])):
            spent = self.__dict__.setdefault("_replay_spent", 0.0)
            limit = float(os.environ.get("VERIF_REPLAY_BUDGET_S", "300" if self.tier == "quick" else "1500"))
            if spent > limit and not self.violations:
                if not self.__dict__.get("_replay_budget_noted"):
                    self._replay_budget_noted = True
                    self.inconclusive.append("%s: replay budget of %.0f s used up without a counterexample reproducing on the real code; remaining counterexamples not replayed" % (name, limit))
                continue
            t0 = time.time()
            self._handle_cex(name, case, cx, replay)
            self._replay_spent = spent + (time.time() - t0)
        tot["solver_s"] = round(tot["solver_s"], 3)
        g["slowest_cases"] = sorted([(r.get("wall_s", 0), r.get("case")) for r in results], key=lambda x: -x[0])[:3]
        if os.environ.get("VERIF_TIMES"):
            for w, c in sorted([(r.get("wall_s", 0), r.get("case")) for r in results], key=lambda x: -x[0])[:8]:
                print("   slow %-7.1fs %s" % (w, str(c)[:200]))
        g["totals"] = tot
        g["obligations"] = obl
        g["n_obligation_kinds"] = len(obl)
        self.groups.append(g)
        if results and len(self.samples) < 12:
            r0 = next((r for r in results if not r.get("fatal")), None)
            if r0:
                names = list(r0["obligations"].keys())
                self.samples.append(dict(group=name, case=r0["case"], paths=r0["stats"]["paths"], queries=r0["stats"]["queries"],
                                         obligations=names[:8]))
        return g

    def _handle_cex(self, group, case, cx, replay):
        rp = None
        # replay budget: once an unlisted violation of this obligation has been reproduced the verdict is fixed (exit 1); after 6 replays of the same obligation
        # that did not reproduce, further ones are recorded as inconclusive without running the real code again
        book = self.__dict__.setdefault("_replay_book", {})
        b = book.setdefault((group, cx["obligation"]), dict(hit=0, miss=0))
        tot = book.setdefault("__total__", dict(miss=0))
        if len(self.violations) >= 3 or tot["miss"] >= 40:
            # three reproduced violations fix the verdict; 40 failed replays in one run are recorded once
            if len(self.violations) < 3 and not tot.get("noted"):
                tot["noted"] = True
                self.inconclusive.append("more than 40 counterexamples did not reproduce on the real code; further ones are not replayed")
            return
        if b["hit"] or b["miss"] >= 6:
            if not b["hit"]:
                self.inconclusive.append("%s case %s obligation %s: counterexample not replayed (6 earlier ones of this obligation did not reproduce)" % (group, case, cx["obligation"]))
            return
        if replay is not None:
            try:
                rp = replay(case, cx)
            except BaseException as e:  # noqa
                rp = dict(reproduced=False, what="replay raised %s: %s\n%s" % (type(e).__name__, e, traceback.format_exc(limit=6)))
        if rp is None:
            self.inconclusive.append("%s case %s obligation %s: counterexample without replay: %s" % (group, case, cx["obligation"], json.dumps(cx["model"])[:400]))
            return
        if not rp.get("reproduced"):
            b["miss"] += 1
            tot["miss"] += 1
            self.inconclusive.append("%s case %s obligation %s: solver counterexample did NOT reproduce on the real code (%s); model=%s" %
                                     (group, case, cx["obligation"], rp.get("what"), json.dumps(cx["model"])[:600]))
            return
        nv = len(self.violations)
        self.found(group, case, cx["obligation"], rp, cx.get("model"))
        if len(self.violations) > nv:
            b["hit"] += 1

    def found(self, group, case, obligation, rp, model=None):
        """a violation reproduced on the real code: known finding or VIOLATION."""
        key = rp.get("key") or "%s/%s" % (group, obligation)
        rec = dict(property=self.pid, group=group, case=case, obligation=obligation, key=key, inputs=rp.get("inputs", model),
                   observed=rp.get("observed"), expected=rp.get("expected"), what=rp.get("what"), replay=rp.get("replay"))
        for kf in load_known().get("findings", []):
            if kf["property"] == self.pid and kf["key"] == key:
                if not any(h["key"] == key for h in self.known_hits):
                    self.known_hits.append(dict(rec, known_id=kf.get("id"), summary=kf.get("summary")))
                return
        if any(v["key"] == key for v in self.violations):
            return
        os.makedirs(REPLAY_DIR, exist_ok=True)
        path = os.path.join(REPLAY_DIR, "%s_%s.json" % (self.pid, hashlib.sha1(key.encode()).hexdigest()[:10]))
        json.dump(rec, open(path, "w"), indent=1, default=str)
        rec["path"] = path
        self.violations.append(rec)

    def note_validation(self, n=1):
        self.validated += n

    def fail_inconclusive(self, msg):
        self.inconclusive.append(msg)

    # ---- finishing ----
    def finish(self):
        wall = round(time.time() - self.t0, 2)
        tot = dict(cases=0, paths=0, completed=0, queries=0, solver_s=0.0, unsat=0, sat=0, unknown=0, branches=0, pruned_by_code_assertions=0)
        n_obl = 0
        n_dis = 0
        for g in self.groups:
            for k in tot:
                tot[k] += g["totals"].get(k, 0)
            for on, o in g["obligations"].items():
                n_obl += o["unsat"] + o["sat"] + o["unknown"]
                n_dis += o["unsat"]
        distinct = sum(len(g["obligations"]) for g in self.groups)
        cov = dict(
            evaluations=max(1, tot["queries"]),
            distinct_nontrivial=distinct,
            rule="evaluations = SMT queries issued (branch feasibility + obligations); distinct_nontrivial = number of distinct named obligation kinds "
                 "(per group) that were discharged by a solver query on at least one feasible path of the real code; "
                 "cases are the enumerated structural bounds listed per group",
            samples=self.samples or [dict(note="no group produced a sample")],
            states=max(1, tot["completed"]),
            transitions=max(1, tot["branches"]),
            traces_validated_against_impl=self.validated,
            obligations=n_obl, discharged=n_dis,
            solver_queries=tot["queries"], solver_seconds=round(tot["solver_s"], 2),
            unsat=tot["unsat"], sat=tot["sat"], unknown=tot["unknown"],
            paths_explored=tot["paths"], paths_completed=tot["completed"], paths_pruned_by_code_assertions=tot["pruned_by_code_assertions"],
            cases=tot["cases"],
            groups=self.groups,
            known_findings_hit=[dict(key=h["key"], id=h.get("known_id")) for h in self.known_hits],
            inconclusive=self.inconclusive[:40],
            explanation="bounded symbolic execution of the repository's own functions; z3 decides each obligation over all values of the symbolic inputs "
                        "within the structural bounds listed per group; 'states' = completed symbolic paths, 'transitions' = symbolic branch decisions, "
                        "'traces_validated_against_impl' = concrete differential runs of encoding vs. un-instrumented code",
            exhaustive=False,
        )
        cov.update(self.extra)
        ev = dict(property_id=self.pid, tier=self.tier, seed=self.seed, level=self.level, coverage=cov,
                  assumptions=sorted({a for g in self.groups for a in g["assumptions"]} | set(self.notes)),
                  wall_s=wall, violations=len(self.violations))
        os.makedirs(EVIDENCE_DIR, exist_ok=True)
        json.dump(ev, open(os.path.join(EVIDENCE_DIR, "%s.json" % self.pid), "w"), indent=1, default=str)
        for h in self.known_hits:
            print("KNOWN-FINDING: property=%s %s [%s]" % (self.pid, h.get("summary") or h["what"], h["key"]))
        for g in self.groups:
            t = g["totals"]
            print("  %-34s cases=%-4d paths=%-6d queries=%-7d unsat=%-7d sat=%-3d unknown=%-2d solver=%.1fs" %
                  (g["name"][:34], t["cases"], t["paths"], t["queries"], t["unsat"], t["sat"], t["unknown"], t["solver_s"]))
        if self.violations:
            for v in self.violations:
                print("  violated: %s / %s / case %s: %s" % (v["group"], v["obligation"], v["case"], (v.get("what") or "")[:300]))
                print("VIOLATION property=%s replay=%s" % (self.pid, v["path"]))
            return 1
        if self.inconclusive:
            for m in self.inconclusive[:15]:
                print("INCONCLUSIVE: %s" % m[:2000])
            print("%s: inconclusive (%d issues) wall=%.1fs" % (self.pid, len(self.inconclusive), wall))
            return 2
        print("%s: OK tier=%s obligations=%d discharged=%d queries=%d wall=%.1fs" % (self.pid, self.tier, n_obl, n_dis, tot["queries"], wall))
        return 0


def frac(s):
    from fractions import Fraction
    if isinstance(s, str):
        return Fraction(s)
    return Fraction(s)


def model_floats(model):
    out = {}
    for k, v in (model or {}).items():
        try:
            out[k] = float(frac(v))
        except Exception:
            out[k] = v
    return out
